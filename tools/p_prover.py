"""C10: success is reported iff every problem is proven, under any prover schedule / fault.

  design check   spec/MCProver  (Prover.tla, every interleaving for small constants)
  spec -> impl   spec/PlanGen   (each behaviour = a plan: configuration, outcomes, completion order)
                 replayed against the real binary with tools/standin_vampire.py first in PATH
  impl -> spec   spec/TraceProver validates the two logs of every real run as a behaviour of Prover.tla
"""
import base64
import concurrent.futures
import hashlib
import json
import os
import random
import re
import shutil
import subprocess

import vcheck as V
from vcheck import ToolError, log

STANDIN = os.path.join(V.VERIF, "tools", "standin_vampire.py")

# (kind, files): kind strong | external ; file name -> content
TASKS = [
    ("strong", {"a.lp": "p(X) :- q(X).\n", "b.lp": "p(X) :- q(X), not r(X).\n"}, []),
    ("strong", {"a.lp": "p(X) :- q(X).\nr(X) :- p(X), not s.\n", "b.lp": "p(X) :- q(X).\nr(X) :- q(X), not s.\n{s}.\n"}, []),
    ("strong", {"a.lp": "p(1..3).\nq(X) :- p(X), X > 1.\nr :- q(2).\n", "b.lp": "p(1). p(2). p(3).\nq(X) :- p(X), X > 1.\nr :- q(2).\n:- not r.\n"}, []),
    ("strong", {"a.lp": "{p(X)} :- q(X).\n", "b.lp": "p(X) :- q(X), not not p(X).\n"}, ["--direction", "forward"]),
    ("strong", {"a.lp": "p(X) :- q(X).\nq(X) :- r(X).\np(X) :- r(X).\ns(X) :- p(X).\n", "b.lp": "p(X) :- q(X).\nq(X) :- r(X).\ns(X) :- q(X).\ns(X) :- p(X).\n"},
     ["--decomposition", "sequential"]),
    ("external", {"a.lp": "p(X) :- q(X), X > n.\n", "b.lp": "p(X) :- q(X), X >= n + 1.\n", "u.ug": "input: n -> integer.\ninput: q/1.\noutput: p/1.\n"}, []),
    ("external", {"s.spec": "spec: forall X (p(X) <-> exists N$i (X = N$i and q(X))).\n", "b.lp": "p(X) :- q(X), X = X + 0.\n",
                  "u.ug": "input: q/1.\noutput: p/1.\n"}, []),
    # a proof outline: more problems per direction; two lemmas carry the same user-chosen name
    ("external", {"s.spec": "spec: forall X (p(X) <-> q(X)).\n", "b.lp": "p(X) :- q(X).\n", "u.ug": "input: q/1.\noutput: p/1.\n",
                  "o.po": "lemma(forward)[aux]: forall X (q(X) -> p(X)).\nlemma(forward)[aux]: forall X (p(X) -> q(X)).\nlemma(backward)[aux]: forall X (p(X) -> q(X)).\n"}, []),
]


def b64(b):
    return base64.b64encode(b).decode()


# concrete behaviours of one prover run, by class of the model (Prover.tla: StatusWords, Unknown, Missing, BadUtf8)
def behaviours():
    out = []
    for w in ["Theorem"]:
        out.append(("T", w, {"stdout_b64": b64(f"% SZS status {w} for prob\n".encode())}))
        out.append(("T", w, {"stdout_b64": b64(f"% Refutation found.\n% SZS status {w} for \n% SZS output start\n".encode()),
                             "stderr_b64": b64(b"warning: x\n")}))
        # a proof listing far beyond the capacity of a pipe (64 KiB): the output must be drained while the prover runs
        big = f"% SZS status {w} for prob\n% SZS output start Proof for prob\n".encode() + b"".join(
            b"%d. p(X%d) | ~q(X%d) [resolution %d,%d]\n" % (i, i, i, i - 1, i - 2) for i in range(6000)) + b"% SZS output end Proof for prob\n"
        out.append(("T", w, {"stdout_b64": b64(big)}))
    out.append(("S", "GaveUp", {"stdout_b64": b64(b"% SZS status GaveUp for prob\n"), "stderr_b64": b64(b"% trace line of the saturation loop\n" * 5000)}))
    for w in ["CounterSatisfiable", "ContradictoryAxioms", "Timeout", "MemoryOut", "GaveUp", "Error"]:
        out.append(("S", w, {"stdout_b64": b64(f"% SZS status {w} for prob\n".encode())}))
    # a first status line decides; a later Theorem line must not turn it into a success
    for txt in [b"% SZS status Satisfiable for prob\n", b"% SZS status theorem for prob\n", b"% SZS status TheoremX for prob\n",
                b"% SZS status Unsatisfiable for prob\n", b"% SZS status Theorem_ for prob\n"]:
        out.append(("S", "Unknown", {"stdout_b64": b64(txt)}))
    for txt, extra in [(b"", {}), (b"hello\n", {}), (b"% SZS status Theorem\n", {}), (b"SZS status: Theorem for prob\n", {}),
                       (b"% SZS  status Theorem for prob\n", {}), (b"% szs status Theorem for prob\n", {}),
                       (b"Theorem\n", {"exit": 0}), (b"", {"exit": 3}), (b"partial out", {"signal": "SIGKILL"}),
                       (b"% SZS status-Theorem for prob\n", {}), (b"", {"stderr_b64": b64(b"% SZS status Theorem for prob\n")})]:
        d = {"stdout_b64": b64(txt)}
        d.update(extra)
        out.append(("S", "Missing", d))
    for raw in [b"\xff\xfe% SZS status Theorem for prob\n", b"% SZS status Theorem for prob\n\xc3\x28"]:
        out.append(("E", "BadUtf8", {"stdout_b64": b64(raw)}))
    out.append(("E", "BadUtf8", {"stdout_b64": b64(b"% SZS status Theorem for prob\n"), "stderr_b64": b64(b"\x80\x81")}))
    return out


def sha_file(p):
    return hashlib.sha256(open(p, "rb").read()).hexdigest()


def prepare_task(ctx, k):
    kind, files, flags = TASKS[k]
    d = ctx.path(f"task{k}")
    os.makedirs(d, exist_ok=True)
    for fn, txt in files.items():
        with open(os.path.join(d, fn), "w") as f:
            f.write(txt)
    save = os.path.join(d, "save0")
    os.makedirs(save, exist_ok=True)
    cmd = [V.ANTHEM, "verify", "--equivalence", kind] + flags + ["--no-proof-search", "--save-problems", save] + \
          [os.path.join(d, fn) for fn in sorted(files)]
    r = subprocess.run(cmd, stdout=subprocess.PIPE, stderr=subprocess.PIPE, text=True)
    if r.returncode != 0:
        raise ToolError(f"C10 task {k} is not accepted by anthem: {r.stderr[-500:]}")
    shas = {fn[:-2]: sha_file(os.path.join(save, fn)) for fn in sorted(os.listdir(save)) if fn.endswith(".p")}
    return {"k": k, "dir": d, "kind": kind, "flags": flags, "files": sorted(files), "shas": shas}


ANN = re.compile(r"^> Proving (\S+)\.\.\.$")
REP_OK = re.compile(r"^> Proving (\S+) ended with a SZS status$")
REP_NO = re.compile(r"^> Proving (\S+) ended without a SZS status$")
REP_ERR = "> Proving <a problem> ended with an error"


def parse_stdout(text):
    """anthem's stdout -> events (names still symbolic)"""
    ev = []
    lines = text.split("\n")
    for n, l in enumerate(lines):
        m = ANN.match(l)
        if m:
            ev.append({"ev": "announce", "name": m.group(1)})
            continue
        m = REP_OK.match(l)
        if m:
            word = ""
            if n + 1 < len(lines) and lines[n + 1].startswith("Status: "):
                word = lines[n + 1][len("Status: "):].split(" ")[0]
            ev.append({"ev": "report", "kind": "status", "name": m.group(1), "word": word})
            continue
        m = REP_NO.match(l)
        if m:
            ev.append({"ev": "report", "kind": "nostatus", "name": m.group(1), "word": ""})
            continue
        if l == REP_ERR:
            ev.append({"ev": "report", "kind": "error", "name": "", "word": ""})
            continue
        if l.startswith("> Success!"):
            ev.append({"ev": "verdict", "success": True})
        elif l.startswith("> Failure!"):
            ev.append({"ev": "verdict", "success": False})
    return ev


def one_run(ctx, rid, task, plan, concrete, n_inst, spawn_mode, time_limit=7):
    """run the real binary once; returns the trace record (dict) plus raw material for the replay file"""
    d = ctx.path(f"run-{rid}")
    os.makedirs(d)
    bindir = os.path.join(d, "bin")
    os.makedirs(bindir)
    save = os.path.join(d, "save")
    os.makedirs(save)
    logf = os.path.join(d, "standin.log")
    open(logf, "w").close()
    planf = os.path.join(d, "plan.json")
    names = list(task["shas"].keys())
    pj = {}
    for name, ent in concrete.items():
        pj[task["shas"][name]] = ent
    json.dump(pj, open(planf, "w"))
    if spawn_mode == "ok":
        with open(os.path.join(bindir, "vampire"), "w") as f:
            f.write(f"#!/bin/sh\nexec python3 {STANDIN} \"$@\"\n")
        os.chmod(os.path.join(bindir, "vampire"), 0o755)
        path = bindir + ":/usr/bin:/bin"
    elif spawn_mode == "noexec":
        with open(os.path.join(bindir, "vampire"), "w") as f:
            f.write("#!/bin/sh\nexit 0\n")
        os.chmod(os.path.join(bindir, "vampire"), 0o644)
        path = bindir
    else:  # missing
        path = bindir
    env = {"PATH": path, "STANDIN_LOG": logf, "STANDIN_PLAN": planf, "HOME": d}
    cmd = [V.ANTHEM, "verify", "--equivalence", task["kind"]] + task["flags"] + \
          ["--no-timing", "-n", str(n_inst), "--time-limit", str(time_limit), "--save-problems", save] + \
          [os.path.join(task["dir"], fn) for fn in task["files"]]
    try:
        r = subprocess.run(cmd, env=env, stdout=subprocess.PIPE, stderr=subprocess.PIPE, timeout=120)
        rc, out, err = r.returncode, r.stdout.decode("utf-8", "replace"), r.stderr.decode("utf-8", "replace")
    except subprocess.TimeoutExpired as e:
        rc, out, err = -9, (e.stdout or b"").decode("utf-8", "replace"), "TIMEOUT"
    standin = [json.loads(l) for l in open(logf) if l.strip()]
    saved = {fn[:-2]: sha_file(os.path.join(save, fn)) for fn in sorted(os.listdir(save)) if fn.endswith(".p")}
    shutil.rmtree(d, ignore_errors=True)
    ev = parse_stdout(out)
    # problems are numbered by first announcement
    index = {}
    for e in ev:
        if e["ev"] == "announce" and e["name"] not in index:
            index[e["name"]] = len(index) + 1
    np_ = len([e for e in ev if e["ev"] == "announce"])
    by_sha = {}
    for name, s in saved.items():
        by_sha.setdefault(s, []).append(name)
    started = {}
    A = []
    pid_p = {}
    for e in standin:
        if e["ev"] == "START":
            cands = [nm for nm in by_sha.get(e["sha"], []) if started.get(nm, 0) == 0] or by_sha.get(e["sha"], [])
            p = index.get(cands[0], 0) if cands else 0
            if cands:
                started[cands[0]] = started.get(cands[0], 0) + 1
            pid_p[e["pid"]] = p
            A.append({"ev": "START", "p": p, "o": ""})
        else:
            A.append({"ev": "EXIT", "p": pid_p.get(e["pid"], 0), "o": e.get("o", "?")})
    B = []
    for e in ev:
        if e["ev"] == "announce":
            B.append({"ev": "announce", "p": index[e["name"]], "kind": "", "word": "", "success": False})
        elif e["ev"] == "report":
            B.append({"ev": "report", "p": index.get(e["name"], 0), "kind": e["kind"], "word": e["word"], "success": False})
        else:
            B.append({"ev": "verdict", "p": 0, "kind": "", "word": "", "success": e["success"]})
    outcome = []
    inv = {v: k for k, v in index.items()}
    for p in range(1, np_ + 1):
        nm = inv.get(p)
        if spawn_mode != "ok":
            outcome.append("SpawnError")
        else:
            outcome.append(concrete.get(nm, {}).get("o", "GaveUp"))
    rec = {"id": rid, "np": np_, "n": n_inst, "spawn_ok": spawn_mode == "ok", "outcome": outcome, "standin": A, "stdout": B,
           "saved": sorted(index.get(nm, 0) for nm in saved)}
    raw = {"cmd": " ".join(cmd[1:]), "task": TASKS[task["k"]], "plan": plan, "concrete": concrete, "exit": rc, "stdout": out[-6000:],
           "announced": [e["name"] for e in ev if e["ev"] == "announce"],
           "stderr": err[-2000:], "standin_log": standin, "saved_sha": saved, "expected_sha": task["shas"], "spawn_mode": spawn_mode}
    return rec, raw


def design_check(ctx):
    _, out = V.run_tlc(ctx, "MCProver", "MCProver.cfg", {}, workers=6, timeout=1200, xss="64m")
    m = re.search(r"(\d+) states generated, (\d+) distinct states found", out)
    if "Error" in out or not m:
        raise ToolError("design check of Prover.tla failed:\n" + out[-2000:])
    gen, dist = int(m.group(1)), int(m.group(2))
    if not ctx.quick():
        # thorough: 4 and 5 problems, 2 / 3 / 5 instances, executable present / missing (35 million distinct states, safety only)
        _, out = V.run_tlc(ctx, "MCProver", "MCProverBig.cfg", {}, workers=8, timeout=3000, xss="64m", xmx="12g")
        m = re.search(r"(\d+) states generated, (\d+) distinct states found", out)
        if "Error" in out or not m:
            raise ToolError("large design check of Prover.tla failed:\n" + out[-2000:])
        gen, dist = gen + int(m.group(1)), dist + int(m.group(2))
    tlaps_proof(ctx)
    return gen, dist


def tlaps_proof(ctx):
    """the flag part of the design (FlagExact, FlagMonotone) is PROVED with TLAPS for any number of problems / instances"""
    d = ctx.path("tlaps")
    os.makedirs(d, exist_ok=True)
    for fn in ("Prover.tla", "ProverProofs.tla"):
        shutil.copy(os.path.join(V.SPEC, fn), d)
    r = subprocess.run(["timeout", "1500", "tlapm", "--threads", "8", "--cleanfp", "ProverProofs.tla"], cwd=d, stdout=subprocess.PIPE, stderr=subprocess.STDOUT, text=True)
    m = re.search(r"All (\d+) obligations proved", r.stdout)
    shutil.rmtree(d, ignore_errors=True)
    if not m:
        raise ToolError("TLAPS proof ProverProofs.tla failed:\n" + r.stdout[-1500:])
    ctx.tlaps_obligations = int(m.group(1))
    log(f"[C10] TLAPS: all {m.group(1)} obligations of ProverProofs.tla proved (FlagExact, FlagMonotone for arbitrary constants)")


def tlc_plans(ctx, cfg, simulate=None):
    meta = ctx.path(f"meta-plan-{ctx.tlc_runs}")
    ctx.tlc_runs += 1
    cmd = ["timeout", "600", "tlc", "-workers", "1" if simulate else "4", "-metadir", meta, "-cleanup", "-noGenerateSpecTE",
           "-config", cfg]
    if simulate:
        cmd += ["-simulate", f"num={simulate}", "-depth", "400", "-seed", str(ctx.seed), "-aril", "0"]
    cmd.append("PlanGen.tla")
    env = dict(os.environ, JAVA_TOOL_OPTIONS="-Xss64m")
    r = subprocess.run(cmd, cwd=V.SPEC, env=env, stdout=subprocess.PIPE, stderr=subprocess.STDOUT, text=True)
    shutil.rmtree(meta, ignore_errors=True)
    if r.returncode != 0 or "Error:" in r.stdout:
        raise ToolError("PlanGen failed:\n" + r.stdout[-2000:])
    plans, seen = [], set()
    for line in r.stdout.splitlines():
        if line.startswith('"{'):
            p = json.loads(json.loads(line))
            key = json.dumps([p["np"], p["n"], p["outcome"], p["exits"]])
            if key not in seen:
                seen.add(key)
                plans.append(p)
    m = re.search(r"(\d+) states generated, (\d+) distinct states found", r.stdout)
    if m:
        ctx.tlc_states += int(m.group(1))
        ctx.tlc_distinct += int(m.group(2))
    return plans


def concretise(rng, plan, names, behs):
    """abstract plan -> stand-in behaviour per problem name (names in emission order)"""
    rank = {p: r for r, p in enumerate(plan["exits"])}
    conc = {}
    for idx, name in enumerate(names, start=1):
        cls = plan["outcome"][idx - 1]
        cands = [b for b in behs if b[0] == cls]
        _, o, ent = cands[rng.randrange(len(cands))]
        e = dict(ent)
        e["o"] = o
        e["delay_ms"] = 25 + 70 * rank.get(idx, idx)
        conc[name] = e
    return conc


def validate(ctx, recs, diag=False):
    tr = ctx.path(f"c10-trace-{ctx.tlc_runs}.ndjson")
    with open(tr, "w") as f:
        for r in recs:
            f.write(json.dumps(r) + "\n")
    env = {"VERIF_TRACE": tr, "VERIF_LO": 1, "VERIF_HI": len(recs), "VERIF_DIAG": "1" if diag else "0"}
    vals, out = V.run_tlc(ctx, "TraceProver", "TraceProver.cfg", env, workers=8, timeout=1800, xss="64m")
    accepted = {v["accept"] for v in vals if "accept" in v}
    at = {}
    for v in vals:
        if "at" in v:
            cur = at.get(v["at"], (0, 0))
            if v["i"] + v["j"] > cur[0] + cur[1]:
                at[v["at"]] = (v["i"], v["j"])
    return accepted, at


def run_C10(ctx):
    V.build()
    gen, dist = design_check(ctx)
    rng = random.Random(ctx.seed)
    behs = behaviours()
    tasks = [prepare_task(ctx, k) for k in range(len(TASKS))]
    by_np = {}
    for t in tasks:
        by_np.setdefault(len(t["shas"]), []).append(t)
    log(f"[C10] design check {dist} distinct states; tasks by number of problems: { {k: len(v) for k, v in by_np.items()} }")
    small = tlc_plans(ctx, "PlanGenSmall.cfg")
    big = tlc_plans(ctx, "PlanGenBig.cfg", simulate=150 if ctx.quick() else 2500)
    plans = [p for p in small + big if p["np"] in by_np]
    rng.shuffle(plans)
    nrun = 70 if ctx.quick() else 1600
    # every configuration (np, n) first, then the rest
    chosen, seen_cfg = [], set()
    for p in plans:
        if (p["np"], p["n"]) not in seen_cfg:
            seen_cfg.add((p["np"], p["n"]))
            chosen.append(p)
    for p in plans:
        if len(chosen) >= nrun:
            break
        if p not in chosen:
            chosen.append(p)
    jobs = []
    for k, p in enumerate(chosen):
        t = by_np[p["np"]][rng.randrange(len(by_np[p["np"]]))]
        names_guess = list(t["shas"].keys())
        # emission order is not known before the run; learn it from a first (sequential) announce pass
        jobs.append((f"r{k}", t, p))
    # emission order per task: one cheap run with all-Theorem plan
    order = {}
    pre_violations, broken = [], set()
    for t in tasks:
        conc = {nm: {"o": "Theorem", "stdout_b64": b64(b"% SZS status Theorem for x\n"), "delay_ms": 0} for nm in t["shas"]}
        rec, raw = one_run(ctx, f"order{t['k']}", t, {"exits": []}, conc, 1, "ok")
        ann = raw["announced"]
        order[t["k"]] = ann
        # every problem handed to a prover is announced under its own name and saved under that name
        if len(set(ann)) != len(ann) or set(ann) != set(t["shas"]):
            pre_violations.append({"check": "C10.every_problem_has_its_own_name_and_file", "text": raw["cmd"],
                                   "detail": f"{len(ann)} problems announced ({len(set(ann))} distinct names), {len(t['shas'])} problem files saved: "
                                             f"announced {ann}, saved {sorted(t['shas'])}", "record": raw})
            broken.add(t["k"])
    tasks = [t for t in tasks if t["k"] not in broken]
    by_np = {}
    for t in tasks:
        by_np.setdefault(len(t["shas"]), []).append(t)
    jobs = [(rid, t, p) for rid, t, p in jobs if t["k"] not in broken]
    recs, raws = [], {}
    with concurrent.futures.ThreadPoolExecutor(max_workers=6) as ex:
        futs = []
        for rid, t, p in jobs:
            conc = concretise(rng, p, order[t["k"]], behs)
            futs.append(ex.submit(one_run, ctx, rid, t, p, conc, p["n"], "ok"))
        # a single failure reported early, everything after it proven (the flag must stay cleared), and the mirror image
        k = 0
        for t in tasks:
            names = order[t["k"]]
            if len(names) < 2:
                continue
            for which, n in ((0, 1), (0, 2), (len(names) - 1, 3), (len(names) // 2, 1)):
                conc = {nm: {"o": "Theorem", "stdout_b64": b64(b"% SZS status Theorem for x\n"), "delay_ms": 25 + 45 * i} for i, nm in enumerate(names)}
                cls = ["CounterSatisfiable", "GaveUp", "Missing", "Unknown"][k % 4]
                cands = [b for b in behs if b[1] == cls]
                ent = dict(cands[k % len(cands)][2])
                ent.update({"o": cls, "delay_ms": 25 + 45 * which})
                conc[names[which]] = ent
                futs.append(ex.submit(one_run, ctx, f"early{k}", t, {"exits": [], "single_failure": names[which]}, conc, n, "ok"))
                k += 1
        # a prover that answers long after the time limit it was given (anthem itself must keep waiting for the result)
        for k, n in enumerate([2, 3] if ctx.quick() else [1, 2, 3, 4, 8]):
            t = [x for x in tasks if len(x["shas"]) >= 2][k % 2]
            names = order[t["k"]]
            conc = {nm: {"o": "Theorem", "stdout_b64": b64(b"% SZS status Theorem for x\n"), "delay_ms": 30} for nm in names}
            late = names[-1] if k % 2 == 0 else names[0]
            conc[late] = {"o": "CounterSatisfiable", "stdout_b64": b64(b"% SZS status CounterSatisfiable for x\n"), "delay_ms": 5200}
            futs.append(ex.submit(one_run, ctx, f"slow{k}", t, {"exits": [], "slow": late}, conc, n, "ok", 1))
        # every prover prints a long proof (more than a pipe holds) before it exits
        bigent = [b for b in behs if b[0] == "T" and len(b[2]["stdout_b64"]) > 100000][0][2]
        for k, n in enumerate([1, 3]):
            t = [x for x in tasks if len(x["shas"]) >= 2][k % 2]
            conc = {nm: dict(bigent, o="Theorem", delay_ms=20 * i) for i, nm in enumerate(order[t["k"]])}
            futs.append(ex.submit(one_run, ctx, f"big{k}", t, {"exits": [], "big_output": True}, conc, n, "ok"))
        # faults: the executable is missing / not executable, for both modes
        for k, (mode, n) in enumerate([("missing", 1), ("missing", 3), ("noexec", 1), ("noexec", 2)]):
            t = tasks[k % len(tasks)]
            futs.append(ex.submit(one_run, ctx, f"f{k}", t, {"exits": [], "fault": mode}, {}, n, mode))
        for f in futs:
            rec, raw = f.result()
            recs.append(rec)
            raws[rec["id"]] = raw
    violations = list(pre_violations)
    # data part of the property: what was fed to the provers is byte-identical to the saved files, names distinct
    for rec in recs:
        raw = raws[rec["id"]]
        if raw["saved_sha"] != raw["expected_sha"]:
            violations.append({"check": "C10.saved_files_deterministic", "text": raw["cmd"],
                               "detail": "files written by --save-problems differ between two runs of the same task", "record": raw})
    good = [r for r in recs if r["np"] > 0]
    for r in recs:
        if r["np"] == 0:
            violations.append({"check": "C10.trace_accepted", "text": raws[r["id"]]["cmd"],
                               "detail": "no problem was announced", "record": raws[r["id"]]})
    accepted, _ = validate(ctx, good)
    rejected = [r for r in good if r["id"] not in accepted]
    if rejected:
        _, at = validate(ctx, rejected, diag=True)
        for r in rejected:
            i, j = at.get(r["id"], (1, 1))
            nxt_a = r["standin"][i - 1] if i <= len(r["standin"]) else None
            nxt_b = r["stdout"][j - 1] if j <= len(r["stdout"]) else None
            raw = raws[r["id"]]
            violations.append({"check": "C10.trace_accepted", "text": raw["cmd"],
                               "detail": f"run is not a behaviour of Prover.tla: longest matched prefix standin={i - 1}/{len(r['standin'])} "
                                         f"stdout={j - 1}/{len(r['stdout'])}; next stand-in event {nxt_a}; next stdout event {nxt_b}; "
                                         f"planned outcomes {r['outcome']} n={r['n']}",
                               "record": {"trace": r, "raw": raw}})
    kinds = {}
    for r in good:
        key = (r["np"], r["n"], tuple(sorted(set(r["outcome"]))), tuple(e["p"] for e in r["standin"] if e["ev"] == "EXIT"))
        kinds[key] = kinds.get(key, 0) + 1
    nontriv = len([k for k in kinds if len(k[2]) > 1 or k[0] > 1])
    samples = [{"trace": r, "cmd": raws[r["id"]]["cmd"]} for r in good[:3]]
    coverage = {
        "states": dist, "transitions": gen, "traces_validated_against_impl": len(good),
        "traces_accepted": len(accepted), "plans_from_tlc": len(small) + len(big), "runs": len(recs),
        "evaluations": len(recs), "distinct_nontrivial": nontriv,
        "configurations_np_n": sorted({(r["np"], r["n"]) for r in good}),
        "outcome_classes_exercised": sorted({o for r in good for o in r["outcome"]}),
        "out_of_order_completions": len([r for r in good if [e["p"] for e in r["standin"] if e["ev"] == "EXIT"] !=
                                         sorted(e["p"] for e in r["standin"] if e["ev"] == "EXIT")]),
        "tlaps_obligations_proved": getattr(ctx, "tlaps_obligations", 0),
        "rule": "design: all interleavings of Prover.tla for np<=3, n<=3, 4 outcome classes, executable present/missing (thorough: np 4-5, n up to 5); "
                "TLAPS proof of FlagExact / FlagMonotone for arbitrary constants; "
                "runs: plans are behaviours of Prover.tla printed by TLC (exhaustive for np<=3,n<=3; simulated for np<=7,n<=8), concretised to "
                "stand-in behaviours (28 variants of status lines / missing / unknown words / non-UTF-8 / non-zero exit / SIGKILL), each run of the "
                "real binary validated by TLC as a behaviour of the model (two cursors, TLC chooses the merge); distinct = distinct (np, n, outcome "
                "classes, completion order); non-trivial = more than one problem or mixed outcomes",
        "samples": samples, "exhaustive": False,
    }
    return V.finish(ctx, "model_checking", coverage, violations, [
        "Prover.tla mirrors Command::Verify / Prover::prove_all / Vampire::prove one action per step; the stand-in prover logs under a lock "
        "with sequence numbers; no ordering is assumed between the stand-in log and anthem's stdout",
        "a run that prints a Theorem line and exits non-zero is never planned (the property's two sentences disagree there)",
        "delays only steer the completion order; any order the model allows is accepted",
    ])
