"""C06 (TPTP rendering preserves meaning), C09 (emitted problems are well-formed, well-typed TFF), C12 (own axioms are true).

The TEXT anthem emits is read by the strict TFF reader (tools/tff.py, cross-checked with the tptp4X shipped in the repository
for syntax); spec/Tptp.tla gives the typing judgement and the standard interpretation; spec/TraceSem.tla compares meanings.
"""
import json
import os
import subprocess

import tff
import vcheck as V
import p_core as C
import p_equiv as E

TPTP4X = os.path.join(V.REPO, "tests", "examples", "tptp4X_linux")
PREAMBLE = os.path.join(V.REPO, "src", "verifying", "problem", "standard_interpretation.p")

TPTP_EXTRA = [
    "1 <= X$i <= 2 -> p(X$i)", "not 1 <= X$i <= 2", "p(1) or 1 < X$i < 3", "1 < X$i < 3 or p(1)", "(1 < X$i < 3) <-> p(1)", "p(1) <- 1 < X$i <= 3 != Y",
    "exists X$i (0 <= X$i < 2 and p(X$i))", "forall X (X = 1 = Y -> p(X))", "not not 0 < N$i < 2", "X < Y <= Z", "a < b", "X$s = a", "X$s != Y$s", "X$s < Y$s",
    "X$i = Y", "X$i < Y", "X$i >= a", "#inf < X", "X <= #sup", "N$i + 1 > 2 * (N$i - -1)", "-N$i < -(3)", "p(-1)", "p(N$i * -2)", "p(a, X$s, N$i, X)",
    "forall X X$i (X = X$i -> p(X))", "exists X$s X (X$s = X and not p(X))", "n > 0 and p(n)", "c = a or p(c)", "forall N$i (N$i > n -> p(N$i + n))",
    "p(X) <- q(X) <- r", "(p(X) -> q(X)) -> r", "p(X) -> (q(X) -> r)", "p(X) and q(X) or r", "p(X) and (q(X) or r)", "not p(X) and q(X)", "not (p(X) and q(X))",
    "forall X (p(X)) and q(X)", "forall X (p(X) and q(X))", "p(X) <-> q(X) <-> r", "exists X (forall Y (t(X, Y)) or exists Z (t(Z, X)))", "#true -> #false",
    "not #true", "X = X", "1 = 1", "a = a", "a != b", "1 < a", "a < #sup", "#inf < 1", "1 + 1 = 2", "2 * 3 != 6", "forall X$i Y$i (X$i * Y$i = Y$i * X$i)",
    "N$i = a", "N$i != S$s", "n = s", "1 = a", "a != 1", "S$s = 1 or N$i = b", "forall N$i (p(N$i) -> N$i != a)", "X = N$i = S$s", "7 >= 5 >= 6", "X > Y > Z",
    "X$i >= 1 >= N$i > -1", "a > X >= b", "3 > 2 > 1", "1 > 2 > 0", "p(-(-3))", "X$i = -(-1)", "-(-2) < N$i", "-(-(-2))  = N$i", "N$i * -(-3) > -(3)", "p(-(0))", "-n < 0", "-(-n) = n", "p(-n)", "forall N$i (-N$i = n -> p(-(-n)))",
    "s = n", "forall X (X = s -> p(X))", "1 <= n <= 2", "not 1 <= n <= c", "1 < 2 < 3 -> r", "r -> 1 < 2 < 3", "r <- X < Y < Z", "not X = Y", "not X$i = 1",
]


def preamble_nodes():
    nodes, err = tff.parse_problem(open(PREAMBLE).read().replace("{{", "{").replace("}}", "}"))
    if err:
        raise V.ToolError("the strict reader rejects the preamble: " + err)
    return nodes


def tptp4x_accepts(text, ctx):
    f = ctx.path("t4x.p")
    with open(f, "w") as fh:
        fh.write(text)
    r = subprocess.run([TPTP4X, f], stdout=subprocess.PIPE, stderr=subprocess.STDOUT, text=True, timeout=60)
    return "ERROR" not in r.stdout and r.returncode == 0, r.stdout[-300:]


def decl(name, sym, args, res):
    return {"k": "decl", "name": name, "sym": sym, "type": {"args": args, "res": res}}


def sort_type(s):
    return {"g": "general", "i": "$int", "s": "symbol"}[s]


# ------------------------------------------------------------------------------------------------ C06
def run_C06(ctx):
    V.build()
    q = ctx.quick()
    cases = V.tlc_generate(ctx, "formula", 500 if q else 9000, 2 if q else 3)
    cases += [{"id": f"x{i}", "f": f} for i, f in enumerate(TPTP_EXTRA)]
    for i, c in enumerate(cases):
        c["placeholders"] = {"n": "i", "c": "g", "s": "s"}
    recs = V.run_harness(ctx, "tptp", cases)
    pre = [n for n in preamble_nodes() if n["k"] == "decl"]
    usable, skipped, violations, seen = [], {}, [], set()
    syntax_bad = 0
    for r in recs:
        if r["kind"] == "panic":
            violations.append({"check": "C06.panic", "text": r["text"], "detail": "anthem panicked: " + r["panic"], "record": r})
            continue
        if r["kind"] != "tptp" or r["text"] in seen:
            continue
        seen.add(r["text"])
        if set(r["syms"]) & {q["p"] for q in r["preds"]}:
            # a name used as symbolic constant and as predicate: inside a problem anthem renames the constant first (C09's subject);
            # the bare formatter is not expected to cope with it
            skipped["symbol-named-like-a-predicate"] = skipped.get("symbol-named-like-a-predicate", 0) + 1
            continue
        decls = list(pre)
        for k, p in enumerate(r["preds"]):
            decls.append(decl(f"predicate_{k}", p["p"], ["general"] * p["n"], "$o"))
        for k, sname in enumerate(r["syms"]):
            decls.append(decl(f"type_symbol_{k}", sname, [], "symbol"))
        for k, fc in enumerate(r["fcs"]):
            decls.append(decl(f"type_function_constant_{k}", f"{fc['c']}_{fc['s']}", [], sort_type(fc["s"])))
        tree, err = tff.parse_formula(r["tptp"])
        if err:
            text = "".join(f"tff({d['name']}, type, {d['sym']}: " +
                           (("(" + " * ".join(d['type']['args']) + ") > ") if d['type']['args'] else "") + f"{d['type']['res']}).\n" for d in decls)
            ok4, msg4 = tptp4x_accepts(text + f"tff(f, axiom, {r['tptp']}).\n", ctx)
            if not ok4:
                syntax_bad += 1
                violations.append({"check": "C06.rendering_is_valid_tff", "text": r["text"],
                                   "detail": f"rendered as `{r['tptp']}`; strict reader: {err}; tptp4X: {msg4.strip()[-160:]}", "record": r})
            else:
                skipped["reader-stricter-than-tptp4X"] = skipped.get("reader-stricter-than-tptp4X", 0) + 1
            continue
        numer = []
        V.numerals(r["f"], numer)
        if [n for n in numer if abs(n) > 20]:
            skipped["large-numerals"] = skipped.get("large-numerals", 0) + 1
            continue
        rec = {"id": r["id"], "kind": "tptp", "text": r["text"], "tptp": r["tptp"], "nsyms": r["nsyms"], "syms": r["syms"], "f": r["f"], "tff": tree,
               "decls": decls}
        why, _ = C.formula_cost_params(ctx, rec, len(usable), [r["f"], r["f"]])
        if why is None:
            # the base must contain the values of the numerals of the formula (a wrongly rendered numeral must be able to hit an atom)
            rec["pp"]["lo"] = max(min(numer + [-1]), -4)
            rec["pp"]["hi"] = min(max(numer + [2]), 4)
            rec["pp"]["wlo"] = min(rec["pp"]["wlo"], rec["pp"]["lo"] - 1)
            rec["pp"]["whi"] = max(rec["pp"]["whi"], rec["pp"]["hi"] + 1)
            usable.append(rec)
        else:
            skipped[why] = skipped.get(why, 0) + 1
    # formulas inside whole problems (renamed symbols, placeholders replaced, several formulas sharing declarations)
    precs, pviol, _ = problem_records(ctx, E.strong_cases(ctx, 8, 60) + E.ext_cases(ctx, 8, 60))
    pusable, _ = param_problems(ctx, precs)
    pusable = pusable[:: max(1, len(pusable) // (60 if q else 600))]
    verdicts = V.tlc_validate(ctx, "TraceSem", usable + pusable, {})
    stats, viol = V.collect(verdicts, usable + pusable, "C06")
    for v in viol:
        v["detail"] += f"  [rendered as `{v['record'].get('tptp', v['record'].get('problem_text', ''))[:600]}`]"
    violations += viol
    coverage = {
        "programs": len(usable), "cases_generated": len(cases), "syntax_rejected_by_both_readers": syntax_bad, "whole_problems": len(pusable),
        "disagreements_checked": stats["verdicts"] - stats["skip"], "evaluations": stats["evaluations"], "unknown_evaluations": stats["unknown"],
        "distinct_nontrivial": len(stats["nontrivial_ids"]), "vacuous_or_constant": stats["vacuous"], "skipped": skipped,
        "identical_normal_forms": stats["identical"],
        "rule": "sigma_0 formulas derived by TLC (spec/Gen.tla: all connectives, chained comparisons, three sorts, same name at two sorts) + "
                "hand-written chains under every connective, mixed-sort comparisons, negative numerals, placeholders of the three sorts; each "
                "universally closed, rendered by tptp::Format, the TEXT read back by the strict TFF reader (syntax violation only if tptp4X "
                "rejects it too), typed by spec/Tptp.tla, mapped through the standard interpretation and compared with the source formula for "
                "every interpretation and placeholder value; distinct by text",
        "samples": C.sample_records(usable, [v for v in verdicts if v["check"].startswith("C06")][:30]), "exhaustive": False,
    }
    return V.finish(ctx, "translation_validation", coverage, violations, C.TV_ASSUME + [
        "the strict TFF reader (tools/tff.py); a syntax violation is reported only when tptp4X rejects the text as well"])


# ------------------------------------------------------------------------------------------------ problems (C09, C12)
DEFAULT_FLAGS = {"mu": False, "sequential": False, "simplify": True, "eqbreak": True, "direction": "universal", "bypass": False}
# (first run: longer problem texts, second run into the SAME directory: same problem names, shorter texts)
SAVE_PAIRS = [
    ({"task": "strong", "left": "p(X) :- q(X), not r(X), X > 1, X != 7.\ns(X, Y) :- p(X), q(Y), X < Y + 9.\n", "right": "p(X) :- q(X), not r(X), X >= 2, X != 7.\ns(X, Y) :- p(X), q(Y), X < Y + 9, Y = Y.\n"},
     {"task": "strong", "left": "p(X) :- q(X).\ns(X, Y) :- p(X), q(Y).\n", "right": "p(X) :- q(X), X = X.\ns(X, Y) :- q(X), q(Y).\n"}),
    ({"task": "external", "left": "p(X) :- q(X), X > n, X != 100, not aux(X).\naux(X) :- q(X), X < n - 20.\n", "right": "p(X) :- q(X), X >= n + 1, X != 100, X >= n - 20.\n",
      "ug": "input: n -> integer.\ninput: q/1.\noutput: p/1.\n"},
     {"task": "external", "left": "p(X) :- q(X).\n", "right": "p(X) :- q(X), X = X.\n", "ug": "input: q/1.\noutput: p/1.\n"}),
    ({"task": "external", "spec": "spec: forall X (p(X) <-> exists N$i (X = N$i and q(X) and N$i > 0 and N$i != 55 and N$i < 1000)).\n", "right": "p(X) :- q(X), X > 0, X != 55, X < 1000.\n",
      "ug": "input: q/1.\noutput: p/1.\n"},
     {"task": "external", "spec": "spec: forall X (p(X) <-> q(X)).\n", "right": "p(X) :- q(X).\n", "ug": "input: q/1.\noutput: p/1.\n"}),
]


def saved_overrides(ctx):
    """`--save-problems` twice into one directory: the files present after the second run, keyed by (case id, problem name)"""
    import shutil
    import subprocess
    casesB, override = [], {}
    for k, (A, B) in enumerate(SAVE_PAIRS):
        d = ctx.path(f"savepair{k}")
        shutil.rmtree(d, ignore_errors=True)
        save = os.path.join(d, "save")
        os.makedirs(save)
        for tag, t in (("A", A), ("B", B)):
            td = os.path.join(d, tag)
            os.makedirs(td)
            paths = []
            for key, fn in (("spec", "s.spec"), ("left", "a.lp"), ("right", "b.lp"), ("ug", "u.ug")):
                if key in t:
                    with open(os.path.join(td, fn), "w") as fh:
                        fh.write(t[key])
                    paths.append(os.path.join(td, fn))
            r = subprocess.run([V.ANTHEM, "verify", "--equivalence", t["task"], "--decomposition", "independent", "--direction", "universal",
                                "--no-proof-search", "--save-problems", save] + paths, stdout=subprocess.PIPE, stderr=subprocess.PIPE, text=True, timeout=120)
            if r.returncode != 0:
                raise V.ToolError(f"save pair {k}{tag} is not accepted by anthem: {r.stderr[-300:]}")
        cid = f"savepair{k}"
        casesB.append(dict(B, id=cid, flagsets=[DEFAULT_FLAGS]))
        for fn in os.listdir(save):
            if fn.endswith(".p"):
                override[(cid, fn[:-2])] = open(os.path.join(save, fn), encoding="utf-8", errors="replace").read()
        shutil.rmtree(d, ignore_errors=True)
    return casesB, override


def problem_records(ctx, cases, strong_ids=None, override=None):
    """run tasks through the hook, read every emitted problem TEXT back; returns (records, violations, stats).
    override: (case id, problem name) -> the text of the FILE that --save-problems left on disk; it is judged instead of the in-memory text"""
    for c in cases:
        c["with_text"] = True
    recs = V.run_harness(ctx, "problems", cases)
    out, violations = [], []
    st = {"tasks": 0, "refused": 0, "problems": 0, "syntax_rejected": 0, "reader_stricter": 0}
    seen_text = set()
    for r in recs:
        if r["kind"] not in ("strong", "external"):
            continue
        st["tasks"] += 1
        task_syms = set()
        for key in ("left", "right", "ug", "po"):
            collect_syms(r.get(key), task_syms)
        for fi, fm in enumerate(r["families"]):
            if "panic" in fm:
                violations.append({"check": ctx.prop + ".panic", "text": r["text"], "detail": f"anthem panicked: {fm['panic']}", "record": {"task": r["text"]}})
                continue
            if "problems" not in fm:
                st["refused"] += 1
                continue
            for p in fm["problems"]:
                if override is not None:
                    disk = override.get((r["id"], p["name"]))
                    if disk is None:
                        violations.append({"check": ctx.prop + ".problem_file_written", "text": r["text"],
                                           "detail": f"problem {p['name']} was emitted but no file of that name was saved", "record": {"task": r["text"], "problem": p["name"]}})
                        continue
                    st["saved_files_compared"] = st.get("saved_files_compared", 0) + 1
                    if disk != p["text"]:
                        st["saved_files_differing"] = st.get("saved_files_differing", 0) + 1
                    p = dict(p, text=disk, name=p["name"] + "@disk")
                if p["text"] in seen_text:
                    continue
                seen_text.add(p["text"])
                st["problems"] += 1
                pid = f"{r['id']}/{fi}/{p['name']}"
                nodes, err = tff.parse_problem(p["text"])
                if err:
                    ok4, msg4 = tptp4x_accepts(p["text"], ctx)
                    if not ok4:
                        st["syntax_rejected"] += 1
                        if ctx.prop == "C09":        # syntax is C09's subject; the other checks only count what they could not read
                                violations.append({"check": ctx.prop + ".problem_is_valid_tff_syntax", "text": r["text"],
                                               "detail": f"problem {p['name']} under {fm['flags']}: strict reader: {err}; tptp4X: {msg4.strip()[-200:]}",
                                               "record": {"task": r["text"], "flags": fm["flags"], "problem": p["name"], "problem_text": p["text"]}})
                    else:
                        st["reader_stricter"] += 1
                    continue
                syms = set()
                for f in p["formulas"]:
                    collect_syms(f["f"], syms)
                syms = sorted(syms, key=lambda x: x.encode())
                # anthem renames a symbolic constant that clashes with a 0-ary predicate: s -> s__s.  The constant still denotes
                # the user's s, so its place in the standard order is that of the ORIGINAL name.
                orig = {}
                for nm in syms:
                    orig[nm] = nm if (nm in task_syms or not nm.endswith("__s") or nm[:-3] not in task_syms) else nm[:-3]
                order = sorted(set(orig.values()), key=lambda x: x.encode())
                true_rank = {nm: order.index(orig[nm]) + 1 for nm in syms}
                src = [{"name": f["name"], "conj": f["conj"], "f": rerank(f["f"], true_rank), "transition": "transition_axiom" in f["name"]} for f in p["formulas"]]
                out.append({"id": pid, "kind": "tffproblem", "text": f"{r['text']} [{p['name']}; {flag_str(fm['flags'])}]", "nodes": nodes, "source": src,
                            "nsyms": len(order), "syms": syms, "true_ranks": [[nm, true_rank[nm]] for nm in syms],
                            "renamed": sorted(nm for nm in syms if orig[nm] != nm), "strong": r["kind"] == "strong", "problem_text": p["text"]})
    return out, violations, st


def flag_str(fl):
    return ",".join(k for k in ("mu", "sequential", "simplify", "eqbreak") if fl.get(k)) + "," + fl.get("direction", "")


def collect_syms(t, out):
    if isinstance(t, dict):
        if t.get("k") == "sym":
            out.add(t["c"])
        for v in t.values():
            collect_syms(v, out)
    elif isinstance(t, list):
        for v in t:
            collect_syms(v, out)


def rerank(t, rank):
    """ranks of symbolic constants relative to the symbols of ONE problem, by the byte order of their ORIGINAL names"""
    if isinstance(t, dict):
        d = {k: rerank(v, rank) for k, v in t.items()}
        if d.get("k") == "sym":
            d["r"] = rank[d["c"]]
        return d
    if isinstance(t, list):
        return [rerank(v, rank) for v in t]
    return t


def param_problems(ctx, recs, budget_q=3000000, budget_t=40000000):
    usable, skipped = [], {}
    for r in recs:
        trees = [s["f"] for s in r["source"]]
        numer = []
        V.numerals(trees, numer)
        if [n for n in numer if abs(n) > 20]:
            skipped["large-numerals"] = skipped.get("large-numerals", 0) + 1
            continue
        depth = max([C.qdepth(t) for t in trees] + [3])       # the preamble has axioms with three quantified variables
        why = V.add_params(ctx, r, len(usable), [], nvars=depth, size=max([V.tree_size(t) for t in trees] + [1]),
                           budget=budget_q if ctx.quick() else budget_t)
        if why is None:
            r["pp"].update({"lo": 0, "hi": 1, "nbs": min(2, max(1, r["nsyms"])), "ext": False, "minsyms": 1})
            usable.append(r)
        else:
            skipped[why] = skipped.get(why, 0) + 1
    return usable, skipped


def finish_problems(ctx, prefix, cases, usable, skipped, violations, st, verdicts, rule, level="model_checking"):
    stats, viol = V.collect(verdicts, usable, prefix)
    for v in viol:
        v["record"] = {k: v["record"].get(k) for k in ("id", "text", "problem_text", "syms")}
    violations = violations + viol
    by_check = {}
    for v in verdicts:
        if v["check"].startswith(prefix):
            by_check[v["check"] + ":" + v["v"]] = by_check.get(v["check"] + ":" + v["v"], 0) + 1
    coverage = {
        "states": max(ctx.tlc_distinct, 1), "transitions": max(ctx.tlc_states, 1), "traces_validated_against_impl": len(usable),
        "evaluations": max(stats["verdicts"], 1), "distinct_nontrivial": len(usable),
        "tasks": st["tasks"], "task_families_refused": st["refused"], "distinct_problem_texts": st["problems"],
        "saved_files_compared_after_second_run": st.get("saved_files_compared", 0), "saved_files_differing_from_memory": st.get("saved_files_differing", 0),
        "syntax_rejected_by_both_readers": st["syntax_rejected"], "reader_stricter_than_tptp4X": st["reader_stricter"],
        "verdicts_by_check": by_check, "skipped": skipped, "unknown_evaluations": stats["unknown"], "rule": rule,
        "samples": [{"problem": r["text"], "text_head": r["problem_text"][-700:]} for r in usable[:2]], "exhaustive": False,
    }
    return V.finish(ctx, level, coverage, violations, [
        "the strict TFF reader (tools/tff.py, the TPTP BNF subset anthem uses); a syntax violation is reported only when tptp4X rejects too",
        "typing judgement and standard interpretation of spec/Tptp.tla; bounded three-valued evaluation of the preamble axioms"])


# a symbolic constant that is renamed (it is also a 0-ary predicate) next to constants that sort between the old and the new name
RENAME_PAIRS = [("a", "a0"), ("a", "a_1"), ("ha", "ha_1"), ("a", "a__"), ("b", "b_g"), ("a", "b"), ("b", "a"), ("a", "a__s"), ("p", "p0")]


def rename_cases():
    out = [
        # extreme elements; a placeholder of sort symbol next to symbolic constants; private predicates whose definition names could collide
        {"id": "xt0", "task": "strong", "left": "p(X) :- q(X), X < #sup.", "right": "p(X) :- q(X)."},
        {"id": "xt1", "task": "external", "left": "p(X) :- q(X), X > #inf.", "right": "p(X) :- q(X), X != #inf.", "ug": "input: q/1. output: p/1."},
        {"id": "xt2", "task": "external", "left": "p(X) :- q(X), X != c, X != a.", "right": "p(X) :- q(X), X != a, X != c.", "ug": "input: q/1. output: p/1. input: c -> symbol."},
        {"id": "xt3", "task": "external", "left": "p(X) :- q(X), X = c, b != c.", "right": "p(c) :- q(c), c != b.", "ug": "input: q/1. output: p/1. input: c -> symbol. input: d -> symbol."},
        {"id": "xt4", "task": "external", "left": "p(X) :- q(X), r(X), r_1(X). r(X) :- q(X), X > 0. r_1(X) :- q(X), X < 5.",
         "right": "p(X) :- q(X), r_1(X), r(X). r(X) :- q(X), X > 0. r_1(X) :- q(X), X < 5.", "ug": "input: q/1. output: p/1."},
        {"id": "xt5", "task": "external", "spec": "spec[predicate_0]: forall X (p(X) <-> q(X)). spec[symbol_order_0]: forall X (p(X) -> X != a). spec[f]: p(b) -> q(b). spec[f]: q(b) -> p(b). spec[f_1]: p(a) -> q(a).",
         "right": "p(X) :- q(X), X != a.", "ug": "input: q/1. output: p/1."},
    ]
    for i, (s, t) in enumerate(RENAME_PAIRS):
        out.append({"id": f"rn{i}s", "task": "strong", "left": f"{s} :- q({s}), not q({t}).", "right": f"{s} :- q({s}), not q({t}), not q(1)."})
        out.append({"id": f"rn{i}e", "task": "external", "left": f"p(X) :- q(X), not {s}, X != {t}. {s} :- q({s}).",
                    "right": f"p(X) :- q(X), not q({s}), X != {t}.", "ug": "input: q/1. output: p/1."})
    return out


def ident_cases(ctx, n_q, n_t):
    cases = V.tlc_generate(ctx, "ident", n_q if ctx.quick() else n_t, 1) + rename_cases()
    sfs, efs = E.flagsets(), E.ext_flagsets()
    for i, c in enumerate(cases):
        if c["task"] == "strong":
            pick = sorted({0, 15, (i * 7) % 16}) if ctx.quick() else range(16)
            c["flagsets"] = [sfs[k] for k in pick]
        else:
            pick = sorted({0, 7, (i * 3) % 8}) if ctx.quick() else range(8)
            c["flagsets"] = [efs[k] for k in pick]
    return cases


def run_C09(ctx):
    V.build()
    q = ctx.quick()
    cases = ident_cases(ctx, 120, 700)
    ordinary = E.strong_cases(ctx, 25, 150) + E.ext_cases(ctx, 25, 150)
    recs, violations, st = problem_records(ctx, cases + ordinary)
    usable, skipped = param_problems(ctx, recs)
    if q and len(usable) > 420:
        usable = usable[:: max(1, len(usable) // 420)]
    # the FILES of --save-problems after a second run into the same directory are judged like the in-memory texts
    casesB, override = saved_overrides(ctx)
    recs2, viol2, st2 = problem_records(ctx, casesB, override=override)
    u2, _ = param_problems(ctx, recs2)
    usable += u2
    violations += viol2
    st["saved_files_compared"] = st2.get("saved_files_compared", 0)
    st["saved_files_differing"] = st2.get("saved_files_differing", 0)
    verdicts = V.tlc_validate(ctx, "TraceSem", usable, {"VERIF_HTCAP": 4, "VERIF_CLCAP": 8})
    return finish_problems(ctx, "C09", cases, usable, skipped, violations, st, verdicts,
                           "tasks derived by TLC from an adversarial identifier pool (spec/Gen.tla mode ident: names with leading underscore, sort "
                           "suffixes _i _g _s, the renaming suffix __s, preamble and TPTP words, a name used as predicate at two arities / as "
                           "symbol and predicate / as placeholder and symbol) plus ordinary C02/C03 tasks, x flag combinations; every distinct "
                           "emitted problem TEXT is read back and judged by the typing judgement of spec/Tptp.tla (declared exactly once, used at "
                           "the declared type, variables bound, unique names, one conjecture); distinct by problem text")


def run_C12(ctx):
    V.build()
    q = ctx.quick()
    cases = E.strong_cases(ctx, 30, 200) + E.ext_cases(ctx, 30, 200) + ident_cases(ctx, 40, 250)
    recs, violations, st = problem_records(ctx, cases)
    usable, skipped = param_problems(ctx, recs)
    if q and len(usable) > 360:
        usable = usable[:: max(1, len(usable) // 360)]
    # the preamble on several windows: the first problems are re-submitted with other window radii and bases
    extra = []
    for k, (wlo, whi, lo, hi, ext) in enumerate([(-1, 1, 0, 0, True), (-2, 2, -1, 1, True), (-3, 3, 0, 2, False), (-4, 4, -2, 2, True), (-6, 6, 0, 3, True)]):
        if usable and (k < 3 or not q):
            r = dict(usable[k % len(usable)])
            r["id"] = r["id"] + f"/window{k}"
            r["pp"] = {"wlo": wlo, "whi": whi, "lo": lo, "hi": hi, "minsyms": 2, "nbs": 2, "ext": ext}
            extra.append(r)
    usable = usable + extra
    verdicts = V.tlc_validate(ctx, "TraceSem", usable, {"VERIF_HTCAP": 5, "VERIF_CLCAP": 8})
    return finish_problems(ctx, "C12", cases, usable, skipped, violations, st, verdicts,
                           "every distinct problem text emitted for C03/C02-style tasks and adversarial-identifier tasks: each axiom that does not come "
                           "from the user's files (preamble, symbol_order_*; for strong equivalence the transition axioms) is mapped through the "
                           "standard interpretation and evaluated (three-valued, windows of radius 1-6 with and without #inf/#sup in the base): it "
                           "must not be false; the ordering axioms must be the chain of all symbolic constants in byte order; transition axioms "
                           "must hold for every H below T")
