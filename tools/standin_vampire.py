#!/usr/bin/env python3
"""Stand-in for the `vampire` executable (property C10).

It reads all of stdin (the problem anthem feeds it), appends START/EXIT records to the log named by
STANDIN_LOG (under an exclusive flock, with a per-log sequence number - never wall-clock time), and
then does exactly what the plan (STANDIN_PLAN, a JSON file keyed by the sha256 of the problem text)
tells it: sleep, write the planned bytes to stdout / stderr, exit with the planned status or kill
itself with the planned signal.  Problems the plan does not know get the entry "*".
"""
import base64
import fcntl
import hashlib
import json
import os
import signal
import sys
import time


def emit(log, rec):
    with open(log, "a+") as f:
        fcntl.flock(f, fcntl.LOCK_EX)
        f.seek(0)
        seq = sum(1 for _ in f)
        rec["seq"] = seq + 1
        f.write(json.dumps(rec) + "\n")
        f.flush()


def main():
    log = os.environ["STANDIN_LOG"]
    plan = json.load(open(os.environ["STANDIN_PLAN"]))
    early = plan.get("__early_close__")
    data = sys.stdin.buffer.read()
    sha = hashlib.sha256(data).hexdigest()
    ent = plan.get(sha) or plan.get("*") or {"o": "GaveUp", "stdout_b64": base64.b64encode(b"% SZS status GaveUp for x\n").decode(), "delay_ms": 0}
    start = {"ev": "START", "sha": sha, "pid": os.getpid(), "args": sys.argv[1:], "len": len(data)}
    if os.environ.get("STANDIN_WATCH"):      # number of problem files present when this prover starts (Pipeline.tla: FilesBeforeProvers)
        try:
            start["nfiles"] = len([f for f in os.listdir(os.environ["STANDIN_WATCH"]) if f.endswith(".p")])
        except OSError:
            start["nfiles"] = 0
    emit(log, start)
    time.sleep(ent.get("delay_ms", 0) / 1000.0)
    sys.stdout.buffer.write(base64.b64decode(ent.get("stdout_b64", "")))
    sys.stdout.buffer.flush()
    sys.stderr.buffer.write(base64.b64decode(ent.get("stderr_b64", "")))
    sys.stderr.buffer.flush()
    emit(log, {"ev": "EXIT", "sha": sha, "pid": os.getpid(), "o": ent.get("o", "?")})
    if ent.get("signal"):
        os.kill(os.getpid(), getattr(signal, ent["signal"]))
        time.sleep(5)
    sys.exit(ent.get("exit", 0))


if __name__ == "__main__":
    main()
