"""A strict reader for the typed first-order form (TFF0) of the TPTP language, as far as anthem uses it.

It follows the TPTP BNF (tff_formula, tff_logic_formula, ...):
   annotated   tff(name, role, formula).            name: lower_word | integer | 'single quoted'
   type role   atom : type        type ::= $tType | atomic | (t1 * ... * tn) > t | t1 > t
   logic       unit ( (<=> | => | <= | <~> | ~| | ~&) unit )?          binary connectives do NOT associate
             | unit (& unit)+ | unit ('|' unit)+                          & and | associate only with themselves
   unit        quantified | ~ unit | atom | term (= | !=) term | ( logic )
   quantified  (! | ?) [ V : type , ... ] : unit
Anything else is a syntax error (with position).  `~ s = t` is read as ~(s = t), as tptp4X does.

Output (JSON-able):
   declaration {"k":"decl","name":..,"sym":..,"type":{"args":[..],"res":..}}      ($tType declarations: res "$tType")
   formula     {"k":"tff","name":..,"role":..,"f":F}
   F ::= {"k":"true"|"false"} | {"k":"patom","p":..,"args":[T]} | {"k":"eq"|"neq","l":T,"r":T} | {"k":"not","f":F}
       | {"k":"and"|"or","fs":[F]} | {"k":"imp"|"rimp"|"iff","l":F,"r":F} | {"k":"forall"|"exists","vars":[{"v":..,"t":..}],"f":F}
   T ::= {"k":"var","v":..} | {"k":"num","n":int} | {"k":"app","f":..,"args":[T]}
"""
import re


class TffError(Exception):
    def __init__(self, msg, pos, text):
        line = text.count("\n", 0, pos) + 1
        col = pos - (text.rfind("\n", 0, pos) + 1) + 1
        super().__init__(f"line {line} col {col}: {msg}; at {text[pos:pos + 40]!r}")
        self.pos = pos


TOKEN = re.compile(r"""
    (?P<ws>\s+|%[^\n]*)
  | (?P<op><=>|<~>|=>|<=|~\||~&|!=|[()\[\],.:&|~!?=*>])
  | (?P<lower>[a-z][A-Za-z0-9_]*)
  | (?P<upper>[A-Z][A-Za-z0-9_]*)
  | (?P<dollar>\$\$?[a-z][A-Za-z0-9_]*)
  | (?P<int>[+-]?(?:0|[1-9][0-9]*))
  | (?P<squote>'(?:[^'\\]|\\['\\])+')
""", re.X)


def tokenize(text):
    toks, pos = [], 0
    while pos < len(text):
        m = TOKEN.match(text, pos)
        if not m:
            raise TffError("illegal character", pos, text)
        kind = m.lastgroup
        if kind != "ws":
            toks.append((kind, m.group(), pos))
        pos = m.end()
    toks.append(("eof", "", len(text)))
    return toks


class Parser:
    def __init__(self, text):
        self.text = text
        self.t = tokenize(text)
        self.i = 0

    def peek(self):
        return self.t[self.i]

    def at(self, val):
        return self.t[self.i][1] == val and self.t[self.i][0] in ("op",)

    def eat(self, val):
        if not self.at(val):
            raise TffError(f"expected {val!r}", self.t[self.i][2], self.text)
        self.i += 1

    def err(self, msg):
        raise TffError(msg, self.t[self.i][2], self.text)

    # ------------------------------------------------------------------ file
    def problem(self):
        out = []
        while self.peek()[0] != "eof":
            out.append(self.annotated())
        return out

    def annotated(self):
        k, v, _ = self.peek()
        if not (k == "lower" and v == "tff"):
            self.err("expected tff(")
        self.i += 1
        self.eat("(")
        k, name, _ = self.peek()
        if k not in ("lower", "int", "squote"):
            self.err("formula name must be a lower-case word, an integer or a single-quoted string")
        self.i += 1
        self.eat(",")
        k, role, _ = self.peek()
        if k != "lower":
            self.err("expected a role")
        self.i += 1
        self.eat(",")
        if role == "type":
            paren = 0
            while self.at("("):
                self.i += 1
                paren += 1
            k, sym, _ = self.peek()
            if k not in ("lower", "squote", "dollar"):
                self.err("a type declaration must name an atom (lower-case word)")
            self.i += 1
            self.eat(":")
            ty = self.type_()
            for _ in range(paren):
                self.eat(")")
            node = {"k": "decl", "name": name, "sym": sym, "type": ty}
        else:
            node = {"k": "tff", "name": name, "role": role, "f": self.logic()}
        self.eat(")")
        self.eat(".")
        return node

    def atomic_type(self):
        k, v, _ = self.peek()
        if k not in ("lower", "dollar"):
            self.err("expected a type")
        self.i += 1
        return v

    def type_(self):
        if self.at("("):
            self.i += 1
            args = [self.atomic_type()]
            while self.at("*"):
                self.i += 1
                args.append(self.atomic_type())
            self.eat(")")
            self.eat(">")
            return {"args": args, "res": self.atomic_type()}
        t = self.atomic_type()
        if self.at(">"):
            self.i += 1
            return {"args": [t], "res": self.atomic_type()}
        return {"args": [], "res": t}

    # ------------------------------------------------------------------ formulas
    NONASSOC = {"<=>": "iff", "=>": "imp", "<=": "rimp", "<~>": "xor", "~|": "nor", "~&": "nand"}

    def logic(self):
        first = self.unit()
        k, v, _ = self.peek()
        if k == "op" and v in self.NONASSOC:
            self.i += 1
            second = self.unit()
            k2, v2, _ = self.peek()
            if k2 == "op" and (v2 in self.NONASSOC or v2 in ("&", "|")):
                self.err("binary connective with ambiguous associativity (parentheses required)")
            return {"k": self.NONASSOC[v], "l": first, "r": second}
        if k == "op" and v in ("&", "|"):
            fs = [first]
            while self.at(v):
                self.i += 1
                fs.append(self.unit())
            k2, v2, _ = self.peek()
            if k2 == "op" and (v2 in self.NONASSOC or v2 in ("&", "|")):
                self.err("binary connective with ambiguous associativity (parentheses required)")
            return {"k": "and" if v == "&" else "or", "fs": fs}
        return first

    def unit(self):
        k, v, _ = self.peek()
        if k == "op" and v in ("!", "?"):
            self.i += 1
            self.eat("[")
            vs = []
            while True:
                k2, name, _ = self.peek()
                if k2 != "upper":
                    self.err("a quantified variable must be an upper-case word")
                self.i += 1
                self.eat(":")          # TFF0 as anthem uses it: every variable carries its type
                vs.append({"v": name, "t": self.atomic_type()})
                if self.at(","):
                    self.i += 1
                    continue
                break
            self.eat("]")
            self.eat(":")
            return {"k": "forall" if v == "!" else "exists", "vars": vs, "f": self.unit()}
        if k == "op" and v == "~":
            self.i += 1
            return {"k": "not", "f": self.unit()}
        if k == "op" and v == "(":
            self.i += 1
            f = self.logic()
            self.eat(")")
            # a parenthesised formula cannot be the operand of an infix equality
            if self.at("=") or self.at("!="):
                self.err("a parenthesised formula cannot be compared with = or !=")
            return f
        return self.atom_or_infix()

    def atom_or_infix(self):
        k, v, pos = self.peek()
        if k == "dollar" and v in ("$true", "$false") and not (self.t[self.i + 1][1] == "("):
            self.i += 1
            return {"k": v[1:]}
        left = self.term()
        if self.at("=") or self.at("!="):
            op = self.peek()[1]
            self.i += 1
            right = self.term()
            if self.at("=") or self.at("!="):
                self.err("chained equality")
            return {"k": "eq" if op == "=" else "neq", "l": left, "r": right}
        if left["k"] != "app":
            raise TffError("a variable or number is not a formula", pos, self.text)
        return {"k": "patom", "p": left["f"], "args": left["args"]}

    def term(self):
        k, v, _ = self.peek()
        if k == "upper":
            self.i += 1
            return {"k": "var", "v": v}
        if k == "int":
            self.i += 1
            return {"k": "num", "n": int(v)}
        if k in ("lower", "dollar", "squote"):
            self.i += 1
            args = []
            if self.at("("):
                self.i += 1
                args.append(self.term())
                while self.at(","):
                    self.i += 1
                    args.append(self.term())
                self.eat(")")
            return {"k": "app", "f": v, "args": args}
        self.err("expected a term")


def parse_problem(text):
    """returns (list of nodes, None) or (None, error message)"""
    try:
        return Parser(text).problem(), None
    except TffError as e:
        return None, str(e)


def parse_formula(text):
    try:
        p = Parser(text)
        f = p.logic()
        if p.peek()[0] != "eof":
            p.err("trailing input")
        return f, None
    except TffError as e:
        return None, str(e)
