#!/usr/bin/env python3
"""Evaluates the checks against the seeded changes WITHOUT touching /repo: a scratch worktree of /repo's HEAD (/tmp/seedrepo), a copy
of the harness that depends on it (/tmp/seedharness) and a scratch output directory (/tmp/seedout).  Results go to seeded/detection.json.

usage: run_all_seeded.py [seed-id ...]      (default: every seeded change whose property has a runner)
"""
import json, os, re, shutil, subprocess, sys, time
VERIF = os.path.dirname(os.path.dirname(os.path.abspath(__file__)))
S = os.path.join(VERIF, "seeded")
SLOT = os.environ.get("SEED_SLOT", "")      # several batches may run side by side, each in its own scratch directories
WT, HS, OUT = "/tmp/seedrepo" + SLOT, "/tmp/seedharness" + SLOT, "/tmp/seedout" + SLOT


def sh(cmd, **kw):
    return subprocess.run(cmd, shell=True, stdout=subprocess.PIPE, stderr=subprocess.STDOUT, text=True, **kw)


def main():
    sys.path.insert(0, os.path.join(VERIF, "tools"))
    import check
    want = sys.argv[1:] or sorted(d for d in os.listdir(S) if os.path.isdir(os.path.join(S, d)))
    sh(f"git -C /repo worktree remove --force {WT}")
    shutil.rmtree(WT, ignore_errors=True)
    r = sh(f"git -C /repo worktree add --detach {WT} HEAD")
    if r.returncode:
        print(r.stdout); sys.exit(2)
    if not os.path.exists(HS):
        shutil.copytree(os.path.join(VERIF, "harness"), HS, ignore=shutil.ignore_patterns("target"))
    else:
        for fn in os.listdir(os.path.join(VERIF, "harness", "src")):
            shutil.copy(os.path.join(VERIF, "harness", "src", fn), os.path.join(HS, "src", fn))
    t = open(os.path.join(VERIF, "harness", "Cargo.toml")).read().replace('path = "/repo"', f'path = "{WT}"')
    open(os.path.join(HS, "Cargo.toml"), "w").write(t)
    detf = os.path.join(S, f"detection{SLOT}.json")
    det = json.load(open(detf)) if os.path.exists(detf) else {}
    env = dict(os.environ, VERIF_REPO=WT, VERIF_HARNESS=HS, VERIF_OUT=OUT)
    # a change seeded for one property may surface through the check of a related one
    RELATED = {"C02": ["C02", "C11", "C13"], "C04": ["C04", "C11"], "C16": ["C16", "C10", "C04"],
               "C07": ["C07", "C03", "C02"], "C05": ["C05", "C03"], "C06": ["C06", "C09"], "C08": ["C08", "C15"], "C09": ["C09", "C06"], "C12": ["C12", "C09"],
               "C19": ["C19", "C02", "C03"], "C13": ["C13", "C02"], "C18": ["C18", "C09"], "C14": ["C14"], "C15": ["C15"], "C20": ["C20"]}
    for d in want:
        prop0 = d.split("-")[0]
        for prop in RELATED.get(prop0, [prop0]):
            if prop in check.RUNNERS:
                run_one(d, prop, det, detf, env)
            if det.get(d, {}).get("status") == "caught":
                break
    sh(f"git -C /repo worktree remove --force {WT}")
    shutil.rmtree(OUT, ignore_errors=True)
    if SLOT:
        shutil.rmtree(HS, ignore_errors=True)


def run_one(d, prop, det, detf, env):
    if True:
        sh(f"git -C {WT} checkout -q -- . && git -C {WT} clean -fdq src")
        a = sh(f"git -C {WT} apply {S}/{d}/patch.diff")
        if a.returncode:
            det[d] = {"status": "patch does not apply", "detail": a.stdout[-300:]}
            return
        t0 = time.time()
        shutil.rmtree(OUT, ignore_errors=True)
        os.makedirs(OUT)
        r = subprocess.run([os.path.join(VERIF, "check"), prop, "--tier", "quick"], env=env, stdout=subprocess.PIPE, stderr=subprocess.STDOUT, text=True)
        nv = len(re.findall(r"^VIOLATION", r.stdout, re.M))
        first = re.search(r"^VIOLATION.*\n(.*)\n(.*)", r.stdout, re.M)
        det[d] = {"status": "caught" if r.returncode == 1 and nv else ("missed" if r.returncode == 0 else f"tool error (exit {r.returncode})"),
                  "by": f"./check {prop} --tier quick", "violations": nv, "wall_s": round(time.time() - t0),
                  "first": (first.group(1).strip()[:300] + " | " + first.group(2).strip()[:300]) if first else r.stdout[-300:] if r.returncode not in (0, 1) else ""}
        print(d, det[d]["status"], nv, f"{det[d]['wall_s']}s", flush=True)
        json.dump(det, open(detf, "w"), indent=1, sort_keys=True)


if __name__ == "__main__":
    main()
