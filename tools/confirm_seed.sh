#!/bin/sh
# confirm_seed.sh <prop> <X>: independently confirm a seeded change produced in /tmp/wt-<prop>/SEEDED/<X>:
#  patch applies to clean HEAD, test suite passes as on the clean tree, demo passes on clean and fails on changed binary.
# On success copies patch.diff, demo.sh, notes.md to /verif/seeded/<prop>-<X>/ and writes confirm.log there.
P=$1; X=$2; WT=/tmp/wt-$P; S=$WT/SEEDED/$X; OUT=/verif/seeded/$P-$X
set -e
cd $WT && git checkout -q -- . && git apply --check $S/patch.diff
mkdir -p $OUT && LOG=$OUT/confirm.log && : > $LOG
# clean binary
if [ ! -x $WT/SEEDED/clean-bin ]; then cargo build --offline >/dev/null 2>&1; cp target/debug/anthem $WT/SEEDED/clean-bin; fi
git apply $S/patch.diff
echo "== cargo test (changed tree)" >> $LOG
cargo test --offline --no-fail-fast 2>&1 | grep -E "^test result|FAILED|failed" >> $LOG || true
cargo build --offline >/dev/null 2>&1; cp target/debug/anthem $S/changed-bin
git checkout -q -- .
PASSED=$(grep -E "^test result" $LOG | sed -E 's/.* ([0-9]+) passed.*/\1/' | paste -sd+ | bc)
echo "passed_total=$PASSED" >> $LOG
set +e
sh $S/demo.sh $WT/SEEDED/clean-bin >/dev/null 2>&1; C=$?
sh $S/demo.sh $S/changed-bin >/dev/null 2>&1; M=$?
echo "demo_clean_exit=$C demo_changed_exit=$M" >> $LOG
cp $S/patch.diff $S/demo.sh $S/notes.md $OUT/ 2>/dev/null
if [ "$PASSED" = "141" ] && [ $C -eq 0 ] && [ $M -ne 0 ]; then echo "CONFIRMED $P-$X" | tee -a $LOG; else echo "NOT-CONFIRMED $P-$X passed=$PASSED clean=$C changed=$M" | tee -a $LOG; fi
