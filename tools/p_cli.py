"""C16 (any input leads to a result or a reported error, never a crash) and the determinism half of C18.

  design check   spec/Cli.tla       (life cycle of one process: every terminal state has status 0/1/2 and a diagnostic if not 0)
  inputs         seed texts derived by TLC from the two grammars (spec/Gen.tla) and the repository's files, mutated at token level
                 (delete / duplicate / swap / replace by any token of the languages / inflate numerals / deepen parentheses ...)
  impl -> spec   spec/TraceCli.tla validates every recorded run as an outcome of Cli.tla
"""
import concurrent.futures
import hashlib
import json
import os
import random
import re
import subprocess

import vcheck as V
import p_core as C
from vcheck import ToolError

TOK = re.compile(r"\s+|#[a-z]+|[A-Za-z_][A-Za-z0-9_]*(?:\$[a-z]*)?|-?\d+|<->|<-|->|<=|>=|!=|:-|\.\.|[^\sA-Za-z0-9_]")
ALPHABET = ["p", "q", "X", "Y", "N$i", "X$", "S$s", "a", "n", "1", "0", "-1", "9223372036854775807", "9223372036854775808", "-9223372036854775809",
            "99999999999999999999999999", "(", ")", "{", "}", "[", "]", ",", ";", ".", "..", ":-", ":", "+", "-", "*", "/", "\\", "=", "!=", "<", "<=", ">", ">=",
            "not", "and", "or", "->", "<-", "<->", "forall", "exists", "#true", "#false", "#inf", "#sup", "#infimum", "#", "$", "$i", "%", "'", "\"", "_",
            "input", "output", "assumption", "spec", "lemma", "definition", "inductive-lemma", "forward", "backward", "universal", "integer", "general",
            "symbol", "/", "p/1", "q/0", "p/99999999999999999999", "p/18446744073709551616", "V18446744073709551615", "\t", "\r\n", "\x00", "é", "\U0001F600"]
HUGE = ["9223372036854775807", "-9223372036854775808", "9223372036854775808", "-9223372036854775809", "18446744073709551616", "1" + "0" * 30]
EDGE_TEXTS = {
    "program": ["", "   \n", "% only a comment", "% c\n% d", "p(9223372036854775807).", "p(-9223372036854775808).", "p(9223372036854775808).",
                "p(9223372036854775807 + 1).", "p(9223372036854775807 * 2) :- q(X).", "p(X) :- q(X), X = 9223372036854775807 * 9223372036854775807.",
                "p(1..9223372036854775807).", "p(X) :- X = 1/0.", "p(X) :- X = 1\\0.", "p(" + "(" * 200 + "1" + ")" * 200 + ").", "p(" + "-" * 12 + "1).",
                "p(" + ",".join(["1"] * 400) + ").", "p" * 3000 + ".", " ".join(f"p{i}(X) :- q{i}(X)." for i in range(300)), "p(" + "1+" * 12 + "1).",
                "p :- " + ", ".join(["q"] * 500) + ".", "V18446744073709551615(1).", "p(V18446744073709551615) :- q(V18446744073709551615).",
                "p(V1, V2, V) :- q(V1, V2, V).", "a. a__s. p(a).", "a. a__s. p(ha).", "a. a__s. a__s__s. p(a, a__s).", "ha. ha__s. p(ha). a :- p(a).", "p(X) :- q(X), not not not p(X).",
                # several rules for one predicate, only some of them with variables named like the head variables of tau* / completion
                "p(V1) :- q(V1). p(X) :- q(X), X > 0.", "p(V2) :- q(V2), not q(V1), q(V1). p(V1) :- q(V1), V1 < 0. p(X) :- q(X), X = 3.",
                "p(X) :- q(X), q(V1), V1 = X. p(V) :- q(V), V != 1.", "p(N0) :- q(N0), N0 = 1..3. p(I) :- q(I), q(J), I = J + 1. p(Z) :- q(Z1), Z = Z1.",
                "{p(X)}.", "{p(X)} :- .", ":- .", "p(a\x00b).", "p(é)."],
    "theory": ["", "% c", "forall X p(X).", "p(9223372036854775808).", "p(-9223372036854775809).", "forall X$i (X$i = 9223372036854775807 + 1).",
               "p(" + "(" * 200 + "1" + ")" * 200 + ").", "not " * 400 + "p.", "(" * 300 + "p" + ")" * 300 + ".", "p and " * 400 + "p.",
               "forall " + " ".join(f"X{i}" for i in range(300)) + " p(X0).", "exists X$i " * 14 + "p(X$i).", "p <-> " * 200 + "p.", "1 < " * 300 + "2.",
               "forall X (p(X) <-> exists Y$i (Y$i = X and Y$i > 18446744073709551616)).", "exists X$i Y$s (X$i = Z and Y$s = Z and p(X$i, Y$s)).",
               "exists S$s N$i (S$s = Y and N$i = Y).", "exists X$s Y$g Z$i (X$s = Y$g and Z$i = Y$g and p(Z$i)).", "p(c$i, c$g, c$s).", "forall V V1 V2 (p(V, V1, V2))."],
    "specification": ["", "spec: p.", "definition: forall X (d(X) <-> q(X)).\nspec: forall X (p(X) <-> d(X)).", "lemma: p.", "inductive-lemma: forall N$i (N$i >= 0 -> p(N$i)).",
                      "assumption: forall X (q(X) -> X > 99999999999999999999).", "spec[" + "a" * 2000 + "]: p.", "spec(forward)(backward): p.",
                      "definition: forall X (p(X) <-> q(X)).", "definition: forall X Y (d(X, X) <-> q(Y)).", "spec: forall X (p(X) <-> q(X)). spec: #false."],
    "user-guide": ["", "input: q/1.", "input: q/1. output: p/1.", "input: q/99999999999999999999.", "input: n -> integer. input: n -> symbol.", "output: p/1. output: p/1.",
                   "input: q/1. input: q/1. output: q/1.", "input: n. output: n/0.", "assumption: n > 0.", "input: q/18446744073709551616. output: p/1."],
    "proof-outline": ["", "lemma: forall X (p(X) -> q(X)).", "inductive-lemma: forall N$i (N$i >= 0 -> q(N$i)).", "inductive-lemma: forall N$i (N$i >= 9223372036854775807 -> q(N$i)).",
                      "inductive-lemma: forall X N$i (N$i >= -1 -> q(N$i)).", "definition: forall X (aux(X) <-> q(X)). lemma: forall X (aux(X) -> q(X)).",
                      "definition: forall X (q(X) <-> p(X)).", "definition: forall X (aux(X) <-> aux(X)).", "spec: p.", "assumption: p.",
                      "inductive-lemma: forall N$i (N$i > 0 -> q(N$i)).", "inductive-lemma: forall N$i M$i (N$i >= 0 -> q(N$i + M$i)).", "lemma(forward): q(1). lemma(backward): q(2)."],
}
# inputs of moderate size on which anthem needs time exponential in the nesting depth (thorough tier only: each costs the full time limit)
HANG_TEXTS = {"program": ["p(" + "1+" * 40 + "1).", "p(" + "-" * 60 + "1).", "p(X) :- q(X), X = " + "2*" * 36 + "Y, q(Y)."],
              "theory": ["exists X$i " * 40 + "p(X$i).", "forall X " * 36 + "not " * 3 + "p(X)."]}
FIXED_PROGRAM = "p(X) :- q(X).\n"
FIXED_UG = "input: q/1.\noutput: p/1.\n"


BIG = False     # thorough tier: larger repetitions and nesting depths in mutations


def tokens(text):
    return TOK.findall(text)


def mutate(rng, text):
    ts = tokens(text) or [""]
    k = rng.randrange(11)
    i = rng.randrange(len(ts))
    if k == 0:
        del ts[i]
    elif k == 1:
        ts.insert(i, ts[i])
    elif k == 2 and len(ts) > 1:
        j = min(i + 1, len(ts) - 1)
        ts[i], ts[j] = ts[j], ts[i]
    elif k in (3, 4, 5):
        ts[i] = rng.choice(ALPHABET)
    elif k == 6:
        ts.insert(i, rng.choice(ALPHABET))
    elif k == 7:
        nums = [n for n, t in enumerate(ts) if re.fullmatch(r"-?\d+", t)]
        if nums:
            ts[rng.choice(nums)] = rng.choice(HUGE)
        else:
            ts.insert(i, rng.choice(HUGE))
    elif k == 8:
        d = rng.choice([10, 60, 250]) if BIG else rng.choice([5, 15, 40])
        ts.insert(i, "(" * d)
        ts.insert(min(len(ts), i + 2), ")" * d)
    elif k == 9:
        ts = ts[:i]
    else:
        ts = ts[:i] + [rng.choice(ALPHABET)] + ts[i:i + 1] * rng.choice([1, 30] if BIG else [1, 6])
    return "".join(ts)


def commands(kind):
    """(command name, builder(paths) -> argv, is_parse)"""
    if kind == "program":
        cs = [("parse program", lambda f: ["parse", "--as", "program", "--output", "default", f["x"]], True),
              ("parse program debug", lambda f: ["parse", "--as", "program", f["x"]], True)]
        cs += [(f"translate {w}", (lambda w: lambda f: ["translate", "--with", w, f["x"]])(w), False) for w in ("tau-star", "mu", "natural")]
        cs += [(f"analyze {p}", (lambda p: lambda f: ["analyze", "--property", p, f["x"]])(p), False) for p in ("tightness", "regularity")]
        cs.append(("verify strong", lambda f: ["verify", "--equivalence", "strong", "--no-proof-search", "--save-problems", f["out"], f["x"], f["prog"]], False))
        cs.append(("verify strong mu", lambda f: ["verify", "--equivalence", "strong", "--formula-representation", "mu", "--no-simplify", "--no-proof-search",
                                                    "--save-problems", f["out"], f["prog"], f["x"]], False))
        cs.append(("verify external", lambda f: ["verify", "--equivalence", "external", "--no-proof-search", "--save-problems", f["out"], f["x"], f["prog"], f["ug"]], False))
        return cs
    if kind == "theory":
        cs = [("parse theory", lambda f: ["parse", "--as", "theory", "--output", "default", f["x"]], True)]
        cs += [(f"translate {w}", (lambda w: lambda f: ["translate", "--with", w, f["x"]])(w), False) for w in ("gamma", "completion")]
        cs += [(f"simplify {p} {s}", (lambda p, s: lambda f: ["simplify", "--portfolio", p, "--strategy", s, f["x"]])(p, s), False)
               for p in ("intuitionistic", "ht", "classic") for s in ("shallow", "recursive", "fixpoint")]
        return cs
    if kind == "specification":
        return [("parse specification", lambda f: ["parse", "--as", "specification", "--output", "default", f["x"]], True),
                ("verify external spec", lambda f: ["verify", "--equivalence", "external", "--no-proof-search", "--save-problems", f["out"], f["xspec"], f["prog"], f["ug"]], False)]
    if kind == "user-guide":
        return [("parse user-guide", lambda f: ["parse", "--as", "user-guide", "--output", "default", f["x"]], True),
                ("verify external ug", lambda f: ["verify", "--equivalence", "external", "--no-proof-search", "--save-problems", f["out"], f["prog"], f["prog2"], f["xug"]], False)]
    return [("parse outline", lambda f: ["parse", "--as", "specification", "--output", "default", f["x"]], True),
            ("verify external outline", lambda f: ["verify", "--equivalence", "external", "--no-proof-search", "--save-problems", f["out"], f["prog"], f["prog2"], f["ug"], f["xpo"]], False)]


def run_input(work, k, kind, text, repeat_first=False, limit=10):
    d = os.path.join(work, f"in{k}")
    os.makedirs(os.path.join(d, "out"), exist_ok=True)
    files = {"x": os.path.join(d, "x.txt"), "xspec": os.path.join(d, "x.spec"), "xug": os.path.join(d, "x.ug"), "xpo": os.path.join(d, "x.po"),
             "prog": os.path.join(d, "b.lp"), "prog2": os.path.join(d, "c.lp"), "ug": os.path.join(d, "u.ug"), "out": os.path.join(d, "out")}
    for key in ("x", "xspec", "xug", "xpo"):
        with open(files[key], "w", encoding="utf-8", errors="surrogatepass") as fh:
            fh.write(text)
    if kind == "program":
        os.replace(files["x"], os.path.join(d, "a.lp"))
        files["x"] = os.path.join(d, "a.lp")
    for key, txt in (("prog", FIXED_PROGRAM), ("prog2", FIXED_PROGRAM), ("ug", FIXED_UG)):
        with open(files[key], "w") as fh:
            fh.write(txt)
    runs = []
    cs = commands(kind)
    if repeat_first:
        cs = cs + cs         # every command twice, in separate processes (determinism)
    for name, build, isparse in cs:
        argv = [V.ANTHEM] + build(files)
        try:
            r = subprocess.run(argv, stdout=subprocess.PIPE, stderr=subprocess.PIPE, timeout=limit, env={"PATH": "/usr/bin:/bin", "RUST_BACKTRACE": "0"})
            code, out, err, to = r.returncode, r.stdout, r.stderr, False
        except subprocess.TimeoutExpired as e:
            code, out, err, to = -999, e.stdout or b"", e.stderr or b"", True
        saved = b""
        for fn in sorted(os.listdir(files["out"])):
            saved += fn.encode() + b"\0" + open(os.path.join(files["out"], fn), "rb").read()
            os.remove(os.path.join(files["out"], fn))
        runs.append({"cmd": name, "isparse": isparse, "code": code if code >= 0 else 128 - code, "signalled": (code < 0 and not to), "timeout": to,
                     "panicked": b"panicked at" in err or code == 101, "diag": len(err.strip()) > 0,
                     "outhash": hashlib.sha256(out + b"\1" + saved).hexdigest()[:16], "stderr_tail": err.decode("utf-8", "replace")[-300:]})
    for fn in os.listdir(d):
        p = os.path.join(d, fn)
        if os.path.isfile(p):
            os.remove(p)
    return runs


def seeds(ctx):
    q = ctx.quick()
    out = []
    for c in V.tlc_generate(ctx, "aspsyntax", 60 if q else 600, 2):
        out.append(("program", c["text"]))
    for c in V.tlc_generate(ctx, "folsyntax", 120 if q else 1200, 2):
        out.append(({"theory": "theory", "specification": "specification", "user-guide": "user-guide"}[c["as"]], c["text"]))
    for c in V.tlc_generate(ctx, "redex", 56 if q else 560, 2):
        out.append(("theory", c["f"] + "."))
    for c in V.tlc_generate(ctx, "ident", 20 if q else 200, 1):
        out.append(("program", c.get("left") or c["right"]))
    for c in V.tlc_generate(ctx, "ext", 12 if q else 100, 1):
        out.append(("program", c["right"]))
        out.append(("user-guide", c["ug"]))
        if "spec" in c:
            out.append(("specification", c["spec"]))
    base = os.path.join(V.REPO, "res", "examples")
    for root, _, files in os.walk(base):
        for fn in sorted(files):
            kind = {"lp": "program", "spec": "specification", "ug": "user-guide", "po": "proof-outline"}.get(fn.rsplit(".", 1)[-1])
            if kind:
                out.append((kind, open(os.path.join(root, fn)).read()))
    return out


def run_cli_check(ctx, prop):
    V.build()
    q = ctx.quick()
    _, mc = V.run_tlc(ctx, "Cli", "MCCli.cfg", {}, workers=2, timeout=300, xss="64m")
    m = re.search(r"(\d+) states generated, (\d+) distinct states found", mc)
    if not m:
        raise ToolError("design check of Cli.tla failed")
    gen, dist = int(m.group(1)), int(m.group(2))
    global BIG
    BIG = not q
    rng = random.Random(ctx.seed)
    sd = seeds(ctx)
    inputs = []
    if prop == "C16":
        for kind, texts in EDGE_TEXTS.items():
            inputs += [(kind, t) for t in texts]
        if not q:
            for kind, texts in HANG_TEXTS.items():
                inputs += [(kind, t) for t in texts]
        inputs += sd[:: (4 if q else 1)]
        nmut = 520 if q else 12000
        for _ in range(nmut):
            kind, text = sd[rng.randrange(len(sd))]
            t = mutate(rng, text)
            if rng.random() < 0.3:
                t = mutate(rng, t)
            inputs.append((kind, t))
    else:
        inputs = sd[:: (3 if q else 1)] + [(k, t) for k, ts in EDGE_TEXTS.items() for t in ts[:6]]
    seen, uniq = set(), []
    for kt in inputs:
        if kt not in seen:
            seen.add(kt)
            uniq.append(kt)
    work = ctx.path("cli")
    os.makedirs(work, exist_ok=True)
    recs = []
    with concurrent.futures.ThreadPoolExecutor(max_workers=10) as ex:
        futs = [ex.submit(run_input, work, k, kind, text, prop == "C18") for k, (kind, text) in enumerate(uniq)]
        for k, f in enumerate(futs):
            kind, text = uniq[k]
            recs.append({"id": f"i{k}", "kind": kind, "text": text, "runs": f.result()})
    # a run that timed out is re-run alone with a generous limit before it is reported (no verdict from scheduling noise)
    for r in recs:
        if any(x["timeout"] for x in r["runs"]):
            r["runs"] = run_input(work, 100000 + int(r["id"][1:]), r["kind"], r["text"], prop == "C18", limit=40)
    tr = ctx.path("cli-trace.ndjson")
    with open(tr, "w") as f:
        for r in recs:
            f.write(json.dumps({"id": r["id"], "runs": [{k: v for k, v in x.items() if k != "stderr_tail"} for x in r["runs"]]}) + "\n")
    verdicts, _ = V.run_tlc(ctx, "TraceCli", "TraceCli.cfg", {"VERIF_TRACE": tr}, workers=4, timeout=1800, xss="64m")
    by = {v["id"]: v for v in verdicts}
    violations = []
    nruns = 0
    for r in recs:
        v = by.get(r["id"])
        if v is None:
            raise ToolError("TraceCli printed no verdict for " + r["id"])
        nruns += len(r["runs"])
        shown = r["text"] if len(r["text"]) < 400 else r["text"][:200] + f" ...[{len(r['text'])} chars]... " + r["text"][-100:]
        bad = v["bad"] if isinstance(v["bad"], list) else list(v["bad"].values()) if isinstance(v["bad"], dict) else []
        if prop == "C16":
            for b in bad:
                tail = [x["stderr_tail"] for x in r["runs"] if x["cmd"] == b["cmd"]][0]
                loc = re.search(r"panicked at ([^\n]*)", tail)
                violations.append({"check": "C16.run_is_an_outcome_of_the_cli_model", "text": f"[{r['kind']}] {shown}",
                                   "detail": f"`anthem {b['cmd']}` {b['why']}" + (f" at {loc.group(1)}" if loc else "") + f"; stderr: ...{tail[-160:]!r}",
                                   "record": {"kind": r["kind"], "text": r["text"], "cmd": b["cmd"]}})
            if not v["later"]:
                violations.append({"check": "C16.accepted_input_is_processed_by_later_stages", "text": f"[{r['kind']}] {shown}",
                                   "detail": "a later stage ended with a usage error on a text that `parse` accepts", "record": {"kind": r["kind"], "text": r["text"]}})
        else:
            if not v["deterministic"]:
                cmds = sorted({x["cmd"] for x in r["runs"] for y in r["runs"] if x["cmd"] == y["cmd"] and (x["outhash"], x["code"]) != (y["outhash"], y["code"])})
                violations.append({"check": "C18.separate_processes_give_identical_output", "text": f"[{r['kind']}] {shown}",
                                   "detail": f"two runs of {cmds} on the same input differ", "record": {"kind": r["kind"], "text": r["text"], "cmds": cmds}})
    accepted = len([r for r in recs if any(x["isparse"] and x["code"] == 0 for x in r["runs"])])
    codes = {}
    for r in recs:
        for x in r["runs"]:
            codes[str(x["code"])] = codes.get(str(x["code"]), 0) + 1
    return recs, violations, {"states": dist, "transitions": gen, "inputs": len(recs), "process_runs": nruns, "inputs_accepted_by_parse": accepted,
                              "exit_codes": codes}


def run_C16(ctx):
    recs, violations, st = run_cli_check(ctx, "C16")
    coverage = {
        "evaluations": st["process_runs"], "distinct_nontrivial": st["inputs"], **st,
        "rule": "inputs: texts derived by TLC from the two grammars (spec/Gen.tla aspsyntax / folsyntax / ext), every file under res/examples, "
                "hand-written edge texts (numerals at and beyond the limits of the integer type, huge arities and variable indices, empty files, "
                "comments only, deep nesting, long chains), and token-level mutations of all of them (delete, duplicate, swap, replace by any token "
                "of the languages, insert, inflate a numeral, wrap in 10-250 parentheses, truncate); every applicable command (parse, translate x5, "
                "simplify x9, analyze x2, verify strong/external --no-proof-search, as program / theory / specification / user guide / proof "
                "outline) in its own process; distinct by (kind, text)",
        "samples": [{"kind": r["kind"], "text": r["text"][:200], "runs": [(x["cmd"], x["code"]) for x in r["runs"]]} for r in recs[:3]], "exhaustive": False,
    }
    return V.finish(ctx, "exploration", coverage, violations, [
        "Cli.tla: a process ends with status 0, 1 or 2 and a diagnostic whenever the status is not 0; anything else (status 101, a signal, "
        "no termination within 10 s, re-run alone with 40 s: more than 1000 times the typical run time) is not an outcome of the model",
        "token-level, grammar-aware mutation; byte-level coverage-guided fuzzing is outside this family of technique"])


# ------------------------------------------------------------------------------------------------ C18
def deep_fixpoint_formulas():
    out = []
    for n in (4, 8, 12, 17, 20, 24, 30):
        vs = [f"X{i}$i" for i in range(1, n + 1)]
        out.append("exists " + " ".join(vs) + " (" + " and ".join(f"{v} = Y" for v in vs) + " and p(" + ", ".join(vs[:2]) + "))")
        out.append("exists " + " ".join(vs) + " (" + " and ".join(f"{vs[i]} = {vs[i + 1]} + 0" for i in range(n - 1)) + " and q(" + vs[0] + "))")
        out.append("not " * n + "p(1)")
        out.append("(" * 0 + " and ".join(["#true"] * n) + " and p(1)")
    return out


DET_TASKS = [
    ("external", {"a.lp": "p(X) :- q(X), X > a + b + c + d, X < e * f.\n", "b.lp": "p(X) :- q(X), X > d + c + b + a, X < f * e.\n",
                  "u.ug": "input: q/1.\noutput: p/1.\ninput: a -> integer.\ninput: b -> integer.\ninput: c -> integer.\ninput: d -> integer.\n"
                          "input: e -> integer.\ninput: f -> integer.\n"}),
    ("external", {"a.lp": "p(X) :- q(X), r(X, k1, k2, k3, k4).\n", "b.lp": "p(X) :- r(X, k1, k2, k3, k4), q(X).\n",
                  "u.ug": "input: q/1.\ninput: r/5.\noutput: p/1.\ninput: k1.\ninput: k2 -> symbol.\ninput: k3 -> integer.\ninput: k4.\n"}),
    ("strong", {"a.lp": "p1(X) :- q1(X), not r1(X). p2(X) :- q2(X), s1. p3(a1, a2, a3, a4) :- q3(b1, b2), t(c1).\n",
                "b.lp": "p3(a4, a3, a2, a1) :- q3(b2, b1). p2(X) :- q2(X). p1(X) :- q1(X).\n"}),
    ("strong", {"a.lp": "z(1). y(2). x(3). w(4). v(5). u(6). {t(X)} :- z(X).\n", "b.lp": "u(6). v(5). w(4). x(3). y(2). z(1). t(X) :- z(X), not not t(X).\n"}),
]


def big_programs():
    """many rules of very uneven cost (output order must not depend on which formula is finished first)"""
    heavy = "p0(X) :- q(X), X = 1 + 2 + 3 + 4 + 5 + 6, not r(X), not not s(X), t(X, Y), u(Y, Z), X < Y, Y < Z, Z != X * Y - 3.\n"
    light = "".join(f"p{i}(X) :- q{i}(X), not r{i}(X).\n" for i in range(1, 90))
    return heavy + light, light + heavy.replace("X < Y, Y < Z", "Y > X, Z > Y")


def big_theory():
    heavy = "forall X Y Z (exists N$i J$i K$i (X = N$i and Y = J$i and Z = K$i and N$i = J$i + 1 and J$i = K$i + 1 and K$i = 3 and p(X, Y, Z) and not not q(X) and (q(X) -> q(X))) -> r(X)).\n"
    return heavy + "".join(f"forall X (p{i}(X) and #true -> q{i}(X) or #false).\n" for i in range(120))


def det_simplify(ctx):
    """`simplify` on a theory with one expensive and many cheap formulas, five times per portfolio, in separate processes"""
    d = ctx.path("detsimp")
    os.makedirs(d, exist_ok=True)
    f = os.path.join(d, "big.spec")
    with open(f, "w") as fh:
        fh.write(big_theory())
    out = []
    for pf in ("classic", "ht"):
        hs = set()
        for _ in range(5):
            r = subprocess.run([V.ANTHEM, "simplify", "--portfolio", pf, "--strategy", "fixpoint", f], stdout=subprocess.PIPE, stderr=subprocess.PIPE, timeout=120)
            hs.add(hashlib.sha256(r.stdout + b"\1" + str(r.returncode).encode()).hexdigest()[:16])
        out.append({"task": "simplify-" + pf, "kind": "simplify", "files": {"big.spec": "1 expensive + 120 cheap formulas"}, "distinct_outputs": [sorted(hs)]})
    return out


def det_tasks(ctx):
    """multi-file tasks whose output order could depend on hashing: run several times in separate processes"""
    out = []
    work = ctx.path("det")
    bigA, bigB = big_programs()
    for k, (kind, files) in enumerate(DET_TASKS + [("strong", {"a.lp": bigA, "b.lp": bigB})]):
        d = os.path.join(work, f"t{k}")
        os.makedirs(os.path.join(d, "save"), exist_ok=True)
        for fn, txt in files.items():
            with open(os.path.join(d, fn), "w") as fh:
                fh.write(txt)
        hashes = []
        for flags in ([], ["--no-simplify", "--decomposition", "sequential"]):
            hs = set()
            for _ in range(5):
                for fn in os.listdir(os.path.join(d, "save")):
                    os.remove(os.path.join(d, "save", fn))
                r = subprocess.run([V.ANTHEM, "verify", "--equivalence", kind, "--no-proof-search", "--save-problems", os.path.join(d, "save")] + flags +
                                   [os.path.join(d, fn) for fn in sorted(files)], stdout=subprocess.PIPE, stderr=subprocess.PIPE, timeout=120)
                blob = r.stdout + b"\1" + str(r.returncode).encode()
                for fn in sorted(os.listdir(os.path.join(d, "save"))):
                    blob += fn.encode() + b"\0" + open(os.path.join(d, "save", fn), "rb").read()
                hs.add(hashlib.sha256(blob).hexdigest()[:16])
            if not flags:
                # the files do not depend on what an earlier run left in the directory: longer files first (no simplification, no
                # equivalence breaking), then the same command again WITHOUT emptying the directory
                save = os.path.join(d, "save")
                fresh = {fn: open(os.path.join(save, fn), "rb").read() for fn in os.listdir(save)}
                args = [os.path.join(d, fn) for fn in sorted(files)]
                subprocess.run([V.ANTHEM, "verify", "--equivalence", kind, "--no-proof-search", "--save-problems", save, "--no-simplify", "--no-eq-break"] + args,
                               stdout=subprocess.PIPE, stderr=subprocess.PIPE, timeout=120)
                subprocess.run([V.ANTHEM, "verify", "--equivalence", kind, "--no-proof-search", "--save-problems", save] + args,
                               stdout=subprocess.PIPE, stderr=subprocess.PIPE, timeout=120)
                for fn in sorted(fresh):
                    p = os.path.join(save, fn)
                    if not os.path.exists(p) or open(p, "rb").read() != fresh[fn]:
                        hs.add(f"reused-directory-differs:{fn}")
                        break
            hashes.append(sorted(hs))
        out.append({"task": k, "kind": kind, "files": files, "distinct_outputs": hashes})
    return out


def run_C18(ctx):
    V.build()
    q = ctx.quick()
    _, mc = V.run_tlc(ctx, "SimplifyLoop", "MCSimplifyLoop.cfg", {}, workers=2, timeout=600, xss="64m")
    m = re.search(r"(\d+) states generated, (\d+) distinct states found", mc)
    if not m:
        raise ToolError("design check of SimplifyLoop.tla failed")
    gen, dist = int(m.group(1)), int(m.group(2))
    # (a) fixpoint strategy
    cases = C.simp_cases(ctx, 600, 8000)
    cases += [{"id": f"deep{i}", "f": f} for i, f in enumerate(deep_fixpoint_formulas())]
    first = V.run_harness(ctx, "simplify", cases)
    # rewrite-chain seeds: the result of one portfolio is the input of the others
    chain = []
    for r in first:
        if r["kind"] == "simp":
            for o in r["outs"]:
                if o.get("strategy") == "fixpoint" and "out_text" in o and not o.get("same"):
                    chain.append({"id": f"{r['id']}>{o['portfolio']}", "f": o["out_text"]})
    chain = chain[:: max(1, len(chain) // (300 if q else 4000))]
    recs = []
    seen = set()
    violations = []
    for r in first + V.run_harness(ctx, "simplify", chain, tag="-chain"):
        if r["kind"] != "simp" or r["text"] in seen:
            continue
        seen.add(r["text"])
        for o in r["outs"]:
            if o.get("strategy") != "fixpoint":
                continue
            if "panic" in o and "did not converge" not in o["panic"]:
                violations.append({"check": "C18.panic", "text": r["text"], "detail": f"{o['portfolio']}: {o['panic']}", "record": {"f": r["text"]}})
                continue
            ps = o.get("passes") if "passes" in o else None
            if ps is None:
                # non-converged runs carry their passes in the panic-free branch only; rebuild from the harness record
                continue
            last = ps[-1] if ps and "final" in ps[-1] else {"converged": False, "lib_equal": False, "idempotent": False}
            hs = [p["h"] for p in ps if "h" in p]
            recs.append({"id": f"{r['id']}/{o['portfolio']}", "kind": "fixloop", "text": r["text"], "portfolio": o["portfolio"], "passes": hs,
                         "converged": last.get("converged", False), "lib_equal": last.get("lib_equal", False), "idempotent": last.get("idempotent", False)})
    verdicts = V.tlc_validate(ctx, "TraceSem", recs, {}, workers=4)
    stats, viol = V.collect(verdicts, recs, "C18")
    violations += viol
    # (b) determinism: every command twice in separate processes; hash-order-sensitive tasks five times
    crecs, cviol, st = run_cli_check(ctx, "C18")
    violations += cviol
    dt = det_tasks(ctx) + det_simplify(ctx)
    for t in dt:
        if any(len(h) != 1 for h in t["distinct_outputs"]):
            violations.append({"check": "C18.separate_processes_give_identical_output", "text": (f"verify --equivalence {t['kind']} " if t["kind"] != "simplify" else "simplify ") + " ".join(sorted(t["files"])),
                               "detail": f"runs in separate processes (5 into an empty directory, 1 into a used one) produced {t['distinct_outputs']} distinct outputs (stdout + problem files)",
                               "record": t})
    maxpass = max([len(r["passes"]) for r in recs] + [0])
    coverage = {
        "states": dist, "transitions": gen, "traces_validated_against_impl": len(recs) + len(crecs),
        "evaluations": len(recs) + st["process_runs"] + 10 * len(dt), "distinct_nontrivial": len([r for r in recs if len(r["passes"]) > 1]),
        "fixpoint_runs": len(recs), "longest_pass_sequence": maxpass, "pass_histogram": {str(k): len([r for r in recs if len(r["passes"]) == k]) for k in sorted({len(r["passes"]) for r in recs})},
        "determinism_inputs": st["inputs"], "determinism_process_runs": st["process_runs"], "hash_order_tasks": len(dt),
        "rule": "fixpoint: the C07 formulas (redex templates, random formulas, tau* outputs), results of one portfolio fed to the others, and "
                "formulas needing many passes (up to 30 integer variables equated in a chain, long prefixes), x 3 portfolios: the loop is driven "
                "pass by pass (<= 64) and the hash sequence validated against SimplifyLoop.tla; determinism: every applicable command twice in "
                "separate processes on generated and repository inputs; four multi-placeholder / multi-predicate verify tasks and one with 90 rules of "
                "uneven cost five times into an empty directory and once into a directory that holds longer files of the same names; `simplify` of a "
                "theory with 1 expensive + 120 cheap formulas five times per portfolio; "
                "non-trivial = the formula changed at least once",
        "samples": [{"formula": r["text"], "portfolio": r["portfolio"], "passes": len(r["passes"])} for r in recs[:3]] + dt[:1], "exhaustive": False,
    }
    return V.finish(ctx, "exploration", coverage, violations, [
        "termination is explored with a pass bound (64), not proved by a ranking function",
        "hash-seed nondeterminism is observed by repeated runs in separate processes, not modelled"])
