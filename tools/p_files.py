"""C20: the role of each input file depends only on its extension and argument order.

  design check   spec/MCFiles   (operational walk = declarative walk; swap / move properties on every bounded layout)
  spec -> impl   spec/FilesGen  (layouts + predicted roles) materialised as temp directories, run through the real CLI
  impl -> spec   spec/TraceFiles validates the observed roles (and the swap property) against Files.tla
"""
import hashlib
import json
import os
import re
import shutil
import subprocess

import vcheck as V
from vcheck import ToolError, log

NUM = re.compile(r"\b(1\d\d\d)\b")
TFF = re.compile(r"^tff\(([^,]+), (axiom|conjecture), (.*)\)\.$")


def content(ext, m, variant=""):
    if ext == "lp" and variant == "broken":      # does not parse
        return f"out(X :- q(X), X != {m}.\n"
    if ext == "lp" and variant == "heavy":       # many rules: much slower to translate than its neighbours
        return f"out(X) :- q(X), X != {m}.\n:- q(7), q(8).\n" + "".join(f"h{i}(X, Y) :- q(X), q(Y), X != Y + {i}, not h{i + 1}(Y, X + {i}).\n" for i in range(60))
    if ext == "spec":
        return f"spec: forall X (out(X) <-> q(X) and X != {m}).\n"
    if ext == "ug":
        return f"input: q/1.\noutput: out/1.\nassumption: forall X (q(X) -> X != {m}).\n"
    if ext == "po":
        return f"lemma: forall X (out(X) -> X != {m}).\n"
    # every program shares one constraint verbatim (obligations about it must be exchanged by a swap, too)
    return f"out(X) :- q(X), X != {m}.\n:- q(7), q(8).\n"


def ext_of(name):
    # Path::extension(): text after the last dot, unless the name starts with its only dot
    if "." not in name or (name.startswith(".") and name.count(".") == 1):
        return ""
    return name.rsplit(".", 1)[1]


class Conflict(Exception):
    pass


def materialise(root, layout, names, markers, variants=None, broken=None):
    """create the files of a layout below root; returns the argument paths.  variants: ordinal of an .lp file (in creation order) ->
    content variant; the paths of unparsable files are appended to `broken`"""
    args = []
    variants = variants or {}
    nlp = [0]

    def put(item, d, prefix):
        name = names[item["n"] - 1]
        p = os.path.join(d, name)
        path = tuple(prefix + [item["n"]])
        if item["k"] == "x":
            if os.path.exists(p):
                raise Conflict()
            return p
        if item["k"] == "f":
            if os.path.isdir(p):
                raise Conflict()
            if path in markers:          # the same file named twice among the arguments: it keeps the content it got first
                return p
            markers[path] = 1001 + len(markers)
            var = ""
            if ext_of(name) == "lp":
                var = variants.get(nlp[0], "")
                nlp[0] += 1
                if var == "broken" and broken is not None:
                    broken.append(list(path))
            with open(p, "w") as f:
                f.write(content(ext_of(name), markers[path], var))
            return p
        if os.path.exists(p):
            raise Conflict()      # the same directory given twice (possibly with other entries)
        os.makedirs(p)
        for e in item["es"]:
            put(e, p, prefix + [item["n"]])
        return p

    for it in layout:
        args.append(put(it, root, []))
    for it in layout:
        if it["k"] == "x" and os.path.exists(os.path.join(root, names[it["n"] - 1])):
            raise Conflict()
    return args


def observe(anthem, mode, args, work, markers, names):
    save = os.path.join(work, "save")
    shutil.rmtree(save, ignore_errors=True)
    os.makedirs(save)
    r = subprocess.run([anthem, "verify", "--equivalence", mode, "--decomposition", "independent", "--no-proof-search", "--save-problems", save] + args,
                       stdout=subprocess.PIPE, stderr=subprocess.PIPE, text=True, timeout=60)
    if r.returncode != 0:
        return {"error": True}, {"fwd": "", "bwd": ""}, r.stderr[-300:]
    inv = {m: list(p) for p, m in markers.items()}
    kind = {m: ext_of(names[p[-1] - 1]) for p, m in markers.items()}
    ax, cj = set(), set()
    sig = {"forward": [], "backward": []}
    for fn in sorted(os.listdir(save)):
        d = "forward" if fn.startswith("forward") else "backward"
        a_bodies, c_body = [], ""
        for line in open(os.path.join(save, fn)):
            m = TFF.match(line.rstrip("\n"))
            if not m:
                continue
            ms = {int(x) for x in NUM.findall(m.group(3))}
            if m.group(2) == "axiom":
                a_bodies.append(m.group(3))
                if d == "forward":
                    ax |= ms
            else:
                c_body = m.group(3)
                if d == "forward":
                    cj |= ms
        sig[d].append([sorted(a_bodies), c_body])

    def h(x):
        return hashlib.sha256(json.dumps(sorted(x, key=json.dumps)).encode()).hexdigest()[:16]

    sigs = {"fwd": h(sig["forward"]), "bwd": h(sig["backward"])}

    def one(ms):
        ms = sorted(ms)
        return inv[ms[0]] if len(ms) == 1 else [["ambiguous"] + ms] if ms else []

    # independent decomposition: the axioms of a forward problem never contain material of the conjecture side
    progs = {m for m in cj if kind[m] not in ("ug", "po")}
    specs = {m for m in ax if kind[m] not in ("ug", "po")}
    if mode == "strong":
        return {"error": False, "left": one(specs), "right": one(progs)}, sigs, ""
    obs = {"error": False, "spec": one(specs), "program": one(progs), "ug": one({m for m in ax | cj if kind[m] == "ug"}),
           "po": one({m for m in ax | cj if kind[m] == "po"})}
    return obs, sigs, ""


def two_program_args(layout, names):
    idx = [i for i, it in enumerate(layout) if it["k"] == "f" and ext_of(names[it["n"] - 1]) == "lp"]
    def has_lp(it):
        if it["k"] == "f":
            return ext_of(names[it["n"] - 1]) == "lp"
        return it["k"] == "d" and any(has_lp(e) for e in it["es"])
    if len(idx) == 2 and sum(1 for it in layout if has_lp(it)) == 2 and layout[idx[0]]["n"] != layout[idx[1]]["n"]:
        return idx
    return None


def run_C20(ctx):
    V.build()
    _, out = V.run_tlc(ctx, "MCFiles", "MCFiles.cfg", {}, workers=4, timeout=900, xss="64m")
    m = re.search(r"(\d+) states generated, (\d+) distinct states found", out)
    if not m:
        raise ToolError("design check MCFiles failed")
    gen, dist = int(m.group(1)), int(m.group(2))
    vals, _ = V.run_tlc(ctx, "FilesGen", "FilesGen.cfg", {"GEN_COUNT": 260 if ctx.quick() else 4000, "VERIF_SEED": ctx.seed},
                        workers=1, timeout=900, xss="64m")
    names = vals[0]["names"]
    if sorted(names, key=lambda x: x.encode()) != names or len(set(names)) != len(names):
        raise ToolError("Files.tla: the name pool is not listed in byte order")
    recs, conflicts, raw = [], 0, {}
    for c in vals:
        for mode in ("strong", "external"):
            root = ctx.path("lay")
            shutil.rmtree(root, ignore_errors=True)
            os.makedirs(root)
            markers = {}
            try:
                args = materialise(root, c["layout"], names, markers)
            except Conflict:
                conflicts += 1
                continue
            obs, sig, err = observe(V.ANTHEM, mode, args, ctx.path("obs"), markers, names)
            rec = {"id": c["id"] + "/" + mode, "mode": mode, "layout": c["layout"], "obs": obs, "sig": sig, "swapped": False,
                   "swaplayout": [], "obsswap": {"error": True}, "sigswap": {"fwd": "", "bwd": ""}}
            tp = two_program_args(c["layout"], names)
            if tp and not obs.get("error"):
                sl = list(c["layout"])
                sl[tp[0]], sl[tp[1]] = sl[tp[1]], sl[tp[0]]
                sargs = list(args)
                sargs[tp[0]], sargs[tp[1]] = sargs[tp[1]], sargs[tp[0]]
                o2, s2, _ = observe(V.ANTHEM, mode, sargs, ctx.path("obs"), markers, names)
                rec.update({"swapped": True, "swaplayout": sl, "obsswap": o2, "sigswap": s2})
            recs.append(rec)
            raw[rec["id"]] = {"args": [os.path.relpath(a, root) for a in args], "stderr": err,
                              "files": {"/".join(names[i - 1] for i in p): mk for p, mk in markers.items()}}
    # the role of a file does not depend on its CONTENT: the same layouts with one .lp file unparsable or much heavier than the others
    PATTERNS = [{0: "broken"}, {1: "broken"}, {2: "broken"}, {0: "heavy"}, {1: "heavy"}]
    nvar = 0
    for ci, c in enumerate(vals):
        if nvar >= (60 if ctx.quick() else 1200):
            break
        for mode in ("strong", "external"):
            pat = PATTERNS[(ci + (mode == "strong")) % len(PATTERNS)]
            root = ctx.path("lay")
            shutil.rmtree(root, ignore_errors=True)
            os.makedirs(root)
            markers, broken = {}, []
            try:
                args = materialise(root, c["layout"], names, markers, pat, broken)
            except Conflict:
                continue
            nlp = len([p for p in markers if ext_of(names[p[-1] - 1]) == "lp"])
            if nlp <= max(pat):
                continue
            reps = 3 if "heavy" in pat.values() else 1     # a dependence on timing need not show in one run
            for rep in range(reps):
                obs, sig, err = observe(V.ANTHEM, mode, args, ctx.path("obs"), markers, names)
                rec = {"id": f"{c['id']}/{mode}/v{ci % len(PATTERNS)}r{rep}", "mode": mode, "layout": c["layout"], "obs": obs, "sig": sig, "swapped": False,
                       "swaplayout": [], "obsswap": {"error": True}, "sigswap": {"fwd": "", "bwd": ""}, "broken": broken}
                recs.append(rec)
                nvar += 1
                raw[rec["id"]] = {"args": [os.path.relpath(a, root) for a in args], "stderr": err, "content_variants": pat,
                                  "files": {"/".join(names[i - 1] for i in p): mk for p, mk in markers.items()}}
    for r in recs:
        r.setdefault("broken", [])
    tr = ctx.path("files-trace.ndjson")
    with open(tr, "w") as f:
        for r in recs:
            f.write(json.dumps(r) + "\n")
    verdicts, _ = V.run_tlc(ctx, "TraceFiles", "TraceFiles.cfg", {"VERIF_TRACE": tr}, workers=4, timeout=1800, xss="64m")
    by = {v["id"]: v for v in verdicts}
    violations = []
    for r in recs:
        v = by.get(r["id"])
        if v is None:
            raise ToolError(f"TraceFiles printed no verdict for {r['id']}")
        text = f"verify --equivalence {r['mode']} " + " ".join(raw[r["id"]]["args"])
        if not v["roles"]:
            violations.append({"check": "C20.roles_as_specified", "text": text,
                               "detail": f"observed roles {r['obs']} but Files.tla assigns {v['expected']} (files and markers: {raw[r['id']]['files']}; {raw[r['id']]['stderr']})",
                               "record": {"trace": r, "raw": raw[r["id"]]}})
        if not v["swap"]:
            violations.append({"check": "C20.swapping_programs_swaps_directions", "text": text,
                               "detail": f"after swapping the two program arguments: roles {r['obsswap']}, forward/backward signatures {r['sig']} vs {r['sigswap']}",
                               "record": {"trace": r, "raw": raw[r["id"]]}})
    ok_runs = [r for r in recs if not r["obs"].get("error")]
    distinct = {json.dumps([r["mode"], r["layout"]]) for r in recs}
    coverage = {
        "states": dist, "transitions": gen, "traces_validated_against_impl": len(recs),
        "evaluations": len(recs), "distinct_nontrivial": len({json.dumps([r["mode"], r["layout"]]) for r in ok_runs}),
        "layouts": len(vals), "layouts_skipped_conflicting_paths": conflicts, "runs_with_content_variants": nvar, "runs_accepted_by_anthem": len(ok_runs),
        "runs_refused": len(recs) - len(ok_runs), "swap_pairs": len([r for r in recs if r["swapped"]]), "distinct_runs": len(distinct),
        "rule": "design: every argument list of <= 3 items over 12 item shapes (files of all kinds, nested directories, a missing path): the "
                "walk loop equals the declarative walk, swap and move properties; runs: layouts derived by TLC (spec/FilesGen.tla, <= 5 arguments, "
                "directories nested two deep, adversarial names) materialised on disk with one marker numeral per file, strong and external mode; "
                "observed = which marker occurs in axioms / conjectures of the forward problems; the same layouts again with one .lp file "
                "unparsable (an error is expected iff Files.tla gives that file a used role) or 60 rules heavier than its neighbours (roles unchanged, "
                "3 repetitions); non-trivial = anthem accepted the layout",
        "samples": [{"trace": r, "raw": raw[r["id"]]} for r in ok_runs[:3]], "exhaustive": False,
    }
    return V.finish(ctx, "model_checking", coverage, violations, [
        "at most the first .spec/.ug/.po in walk order is used (the statement does not say which of several wins; Files.tla follows files.rs)",
        "roles are observed through marker numerals in the saved problems",
    ])
