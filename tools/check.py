#!/usr/bin/env python3
"""Entry point: per-property checks. See vcheck.py for the shared pipeline."""
import argparse
import json
import os
import sys

sys.path.insert(0, os.path.dirname(os.path.abspath(__file__)))
import vcheck as V  # noqa: E402
from vcheck import Ctx, ToolError, log  # noqa: E402

TV_ASSUME = [
    "TLC evaluates the TLA+ reference semantics (spec/Values, PropHT, Sigma0, MiniGringo) correctly",
    "interpretations are finite: atom arguments range over a small base (integers lo..hi, one named symbolic constant, "
    "optionally #inf/#sup); quantifiers range over a concrete window plus abstract far elements, three-valued and sound "
    "for the infinite domain; unknown (U) evaluations never raise an alarm and are counted",
    "division/modulo follow anthem's documented semantics D1 (positive divisors only)",
    "the harness serializers are mechanical (one constructor per JSON record)",
]


def sample_records(records, verdicts, k=4):
    out = []
    vb = {}
    for v in verdicts:
        vb.setdefault(v["id"], []).append({x: v[x] for x in ("check", "v", "n", "unk", "t", "f", "ident") if x in v})
    for r in records[:k]:
        out.append({"id": r["id"], "input": r.get("text", ""), "verdicts": vb.get(r["id"], [])})
    return out


# =================================================================================== C01 / C08
def rule_records(ctx, nprog, depth):
    nsys = 1476
    take = 260 if ctx.quick() else nsys
    cases = V.tlc_generate(ctx, "sysrule", take, depth, {"GEN_STRIDE": 181 if ctx.quick() else 1})
    cases += V.tlc_generate(ctx, "program", nprog, depth)
    for i, (name, text) in enumerate(V.repo_programs()):
        cases.append({"id": f"repo{i}", "prog": V.strip_comments(text), "origin": name})
    cases += [{"id": f"t{i}", "prog": p} for i, p in enumerate(TABLE_PROGRAMS)]
    recs = V.run_harness(ctx, "translate", cases)
    return cases, recs


TABLE_PROGRAMS = [
    # shapes from the unit-test tables of tau_star.rs / natural.rs / mu.rs, and the fresh-name traps
    "p(X+1) :- q(X).", "p(X/2) :- q(X).", "{p(X)} :- q(X), not r(X).", ":- p(X), X > 0.", "p(1..2).",
    "p(X) :- X = 0..1.", "p(X*X) :- q(X), X != 1.", "p(X \\ 2) :- q(X).", "p(I+J) :- q(I), q(J).",
    "p(Z) :- q(Z1), Z = Z1 + 1.", "p(V1) :- q(V1), not q(V).", "p(K) :- K = I..J, q(I), q(J).",
    "p(Q/R) :- q(Q), q(R).", "p(Q \\ R) :- q(Q), r(R).", "{p(I)} :- q(I), not not p(I).", "p(X,Y) :- q(X), q(Y), X < Y.",
    "p(-X) :- q(X).", "p(-(1..2)).", "p((1..2)*2).", "p(1..X) :- q(X).", "p(X..2) :- q(X).", "s :- not not s.",
    "s :- q(X), not p(X).", ":- s, not q(1).", "p(a). p(1). q(X) :- p(X), X > 0.", "p(X) :- q(X), X < #sup, X > #inf.",
    "p(N0) :- q(N0), N0 = 1..2.", "p(1..2, N0) :- q(N0).", "p(X) :- q(X), X != a.", "p(2/0).", "p(1/(X-1)) :- q(X).",
    "p(X) :- q(X), 1 = X \\ 2.", "{p(1..2)}.", "{p(X+1)} :- q(X).", "p(X+(1..2)) :- q(X).", "p(X) :- q((X+1)*2).",
    "p(X) :- X = -1..1, not q(X).", "p(5 \\ -2).", "p(-3/2).", "p(-3 \\ 2).",
]


def check_rules(ctx, prefix, nprog_q, nprog_t):
    V.build()
    nprog = nprog_q if ctx.quick() else nprog_t
    cases, recs = rule_records(ctx, nprog, 2 if ctx.quick() else 3)
    rules = [r for r in recs if r["kind"] == "rule"]
    panics = [r for r in recs if r["kind"] == "panic"]
    rejected = [r for r in recs if r["kind"] == "reject"]
    usable, skipped = [], {}
    seen = set()
    for r in rules:
        key = json.dumps(r["rule"], sort_keys=True)
        if key in seen:
            continue
        seen.add(key)
        why = V.add_params(ctx, r, len(usable), ["rule", "tau", "mu", "nat"], nvars=len(r["rule"]["vars"]),
                           size=V.tree_size(r["rule"]))
        if why is None:
            usable.append(r)
        else:
            skipped[why] = skipped.get(why, 0) + 1
    verdicts = V.tlc_validate(ctx, "TraceSem", usable, {})
    stats, violations = V.collect(verdicts, usable, prefix)
    for p in panics:
        violations.append({"check": prefix + ".panic", "text": p["text"], "detail": "anthem panicked: " + p["panic"], "record": p})
    if prefix == "C08":
        # mu never fails: every parsed program must have produced rule records (a panic is reported above)
        pass
    coverage = {
        "programs": len(cases) - len(rejected),
        "rules_validated": len(usable),
        "disagreements_checked": stats["verdicts"] - stats["skip"],
        "evaluations": stats["evaluations"],
        "identical_normal_forms": stats["identical"],
        "unknown_evaluations": stats["unknown"],
        "distinct_nontrivial": len(stats["nontrivial_ids"]),
        "vacuous_or_constant": stats["vacuous"],
        "skipped": skipped,
        "rejected_by_parser": len(rejected),
        "rule": "programs derived by TLC from the mini-gringo grammar (spec/Gen.tla, depth-bounded, adversarial variable pool) "
                "+ all res/examples programs + test-table shapes; distinct by rule tree; non-trivial = the reference grounding "
                "mentions atoms and was both true and false on the explored HT interpretations (or groundings identical)",
        "samples": sample_records(usable, [v for v in verdicts if v["check"].startswith(prefix)]),
        "exhaustive": False,
    }
    return V.finish(ctx, "translation_validation", coverage, violations, TV_ASSUME)


def run_C01(ctx):
    return check_rules(ctx, "C01", 60, 2500)


def run_C08(ctx):
    return check_rules(ctx, "C08", 60, 2500)


RUNNERS = {"C01": run_C01, "C08": run_C08}


def main():
    ap = argparse.ArgumentParser()
    ap.add_argument("prop")
    ap.add_argument("--tier", default=os.environ.get("VERIF_TIER", "quick"), choices=["quick", "thorough"])
    ap.add_argument("--replay")
    a = ap.parse_args()
    seed = int(os.environ.get("VERIF_SEED", "1"))
    if a.prop == "setup":
        try:
            V.build()
        except ToolError as e:
            log(str(e))
            return 2
        return 0
    if a.prop not in RUNNERS:
        log(f"unknown property {a.prop}")
        return 2
    ctx = Ctx(a.prop, a.tier, seed)
    try:
        return RUNNERS[a.prop](ctx)
    except ToolError as e:
        log(f"TOOL ERROR [{a.prop}]: {e}")
        return 2
    finally:
        ctx.cleanup()


if __name__ == "__main__":
    sys.exit(main())
