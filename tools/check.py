#!/usr/bin/env python3
"""Entry point: ./check <Cxx|setup> [--tier quick|thorough] [--replay FILE].  See vcheck.py for the shared pipeline."""
import argparse
import json
import os
import sys

sys.path.insert(0, os.path.dirname(os.path.abspath(__file__)))
import vcheck as V  # noqa: E402
from vcheck import Ctx, ToolError, log  # noqa: E402
import p_core  # noqa: E402
import p_prover  # noqa: E402
import p_completion  # noqa: E402
import p_files  # noqa: E402
import p_equiv  # noqa: E402
import p_analysis  # noqa: E402
import p_tptp  # noqa: E402
import p_syntax  # noqa: E402
import p_cli  # noqa: E402
import p_outline  # noqa: E402

RUNNERS = dict(p_core.RUNNERS)
RUNNERS.update({"C10": p_prover.run_C10, "C04": p_completion.run_C04, "C20": p_files.run_C20, "C03": p_equiv.run_C03, "C02": p_equiv.run_C02, "C19": p_equiv.run_C19, "C11": p_analysis.run_C11, "C06": p_tptp.run_C06, "C09": p_tptp.run_C09, "C12": p_tptp.run_C12, "C14": p_syntax.run_C14, "C15": p_syntax.run_C15, "C16": p_cli.run_C16, "C18": p_cli.run_C18, "C13": p_outline.run_C13})


def main():
    ap = argparse.ArgumentParser()
    ap.add_argument("prop")
    ap.add_argument("--tier", default=os.environ.get("VERIF_TIER", "quick"), choices=["quick", "thorough"])
    ap.add_argument("--replay")
    a = ap.parse_args()
    seed = int(os.environ.get("VERIF_SEED", "1"))
    if a.prop == "setup":
        try:
            V.build()
        except ToolError as e:
            log(str(e))
            return 2
        return 0
    if a.prop not in RUNNERS:
        log(f"unknown property {a.prop}")
        return 2
    ctx = Ctx(a.prop, a.tier, seed)
    if a.replay:
        ctx.replay = json.load(open(a.replay))
    try:
        return RUNNERS[a.prop](ctx)
    except ToolError as e:
        log(f"TOOL ERROR [{a.prop}]: {e}")
        return 2
    finally:
        ctx.cleanup()


if __name__ == "__main__":
    sys.exit(main())
