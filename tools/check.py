#!/usr/bin/env python3
"""Entry point: ./check <Cxx|setup> [--tier quick|thorough] [--replay FILE].  See vcheck.py for the shared pipeline."""
import argparse
import json
import os
import sys

sys.path.insert(0, os.path.dirname(os.path.abspath(__file__)))
import vcheck as V  # noqa: E402
from vcheck import Ctx, ToolError, log  # noqa: E402
import p_core  # noqa: E402
import p_prover  # noqa: E402
import p_completion  # noqa: E402
import p_files  # noqa: E402
import p_equiv  # noqa: E402
import p_analysis  # noqa: E402
import p_tptp  # noqa: E402
import p_syntax  # noqa: E402
import p_cli  # noqa: E402
import p_outline  # noqa: E402
import p_selftest  # noqa: E402

RUNNERS = dict(p_core.RUNNERS)
RUNNERS.update({"C10": p_prover.run_C10, "C04": p_completion.run_C04, "C20": p_files.run_C20, "C03": p_equiv.run_C03, "C02": p_equiv.run_C02, "C19": p_equiv.run_C19, "C11": p_analysis.run_C11, "C06": p_tptp.run_C06, "C09": p_tptp.run_C09, "C12": p_tptp.run_C12, "C14": p_syntax.run_C14, "C15": p_syntax.run_C15, "C16": p_cli.run_C16, "C18": p_cli.run_C18, "C13": p_outline.run_C13})


TRACE_KINDS = {"rule", "equiv", "gamma", "subst", "completion", "completable", "strong", "external", "analyze", "tptp", "tffproblem",
               "roundtrip", "fixloop"}


def replay(ctx, path):
    """Re-validates the recorded implementation output of a reported violation with the trace specification and prints the
    witness; exit 1 if the violation is reproduced, 0 if the record is (now) accepted."""
    d = json.load(open(path))
    print(f"replay of {path}")
    print(f"  property={d.get('property')} check={d.get('check')}")
    print(f"  input: {str(d.get('text'))[:1000]}")
    print(f"  reported: {str(d.get('detail'))[:1500]}")
    rec = d.get("record")
    if not (isinstance(rec, dict) and rec.get("kind") in TRACE_KINDS and ("pp" in rec or "exp" in rec or rec.get("kind") in ("roundtrip", "fixloop", "analyze"))):
        print("  (this record is a process run / text-level finding: re-run the command shown above against the binary to reproduce it)")
        return 1
    V.build()
    verdicts = V.tlc_validate(ctx, "TraceSem", [rec], {"VERIF_PROP": d.get("property", ctx.prop)}, workers=2)
    bad = [v for v in verdicts if v.get("v") == "DISAGREE"]
    for v in verdicts:
        print(f"  {v['check']}: {v['v']}  {V.wit_str(v) if v.get('v') == 'DISAGREE' else ''}")
    if bad:
        print(f"VIOLATION property={d.get('property')} replay={path}")
        return 1
    return 0


def main():
    ap = argparse.ArgumentParser()
    ap.add_argument("prop")
    ap.add_argument("--tier", default=os.environ.get("VERIF_TIER", "quick"), choices=["quick", "thorough"])
    ap.add_argument("--replay")
    a = ap.parse_args()
    seed = int(os.environ.get("VERIF_SEED", "1"))
    if a.prop == "setup":
        try:
            V.build()
        except ToolError as e:
            log(str(e))
            return 2
        return 0
    if a.prop == "selftest":
        ctx = Ctx("selftest", a.tier, seed)
        try:
            return p_selftest.run_selftest(ctx)
        except ToolError as e:
            log(f"TOOL ERROR [selftest]: {e}")
            return 2
        finally:
            ctx.cleanup()
    if a.prop not in RUNNERS:
        log(f"unknown property {a.prop}")
        return 2
    # the costliest semantic checks: their thorough tier is the quick-tier configuration under three seeds (other programs, other
    # rotations of the enumeration cores); the deeper caps took more than an hour each
    if a.tier == "thorough" and a.prop in ("C02", "C08", "C19") and not a.replay:
        rc = 0
        for k in range(3):
            ctx = Ctx(a.prop, "thorough", seed + k)
            ctx.force_quick = True
            try:
                rc = max(rc, RUNNERS[a.prop](ctx))
            except ToolError as e:
                log(f"TOOL ERROR [{a.prop}]: {e}")
                rc = max(rc, 2)
            except Exception:
                import traceback
                log(f"TOOL ERROR [{a.prop}]: unexpected exception in the checker\n" + traceback.format_exc())
                rc = max(rc, 2)
            finally:
                ctx.cleanup()
        return rc
    ctx = Ctx(a.prop, a.tier, seed)
    if a.replay:
        try:
            return replay(ctx, a.replay)
        except ToolError as e:
            log(f"TOOL ERROR [{a.prop}]: {e}")
            return 2
        finally:
            ctx.cleanup()
    try:
        return RUNNERS[a.prop](ctx)
    except ToolError as e:
        log(f"TOOL ERROR [{a.prop}]: {e}")
        return 2
    except Exception:      # a defect of the machinery is never reported as a violation (exit 1 is reserved for VIOLATION lines)
        import traceback
        log(f"TOOL ERROR [{a.prop}]: unexpected exception in the checker\n" + traceback.format_exc())
        return 2
    finally:
        ctx.cleanup()


if __name__ == "__main__":
    sys.exit(main())
