#!/usr/bin/env python3
"""Orchestration for the anthem verification checks (see DESIGN.md section 3 and 9).

   ./check <Cxx> [--tier quick|thorough] [--replay FILE]

Pipeline of one check:
   TLC generator (spec/Gen*.tla)  -> cases  -> harness `avh` (real anthem, rebuilt from /repo)
   -> trace.ndjson -> TLC trace specification (spec/Trace*.tla) -> verdict lines
   -> known_findings.json matching -> evidence/<Cxx>.json, replays/*, exit code.

Exit codes: 0 property held on everything explored (KNOWN-FINDING lines allowed),
            1 at least one unlisted violation (VIOLATION lines), 2 tool error / timeout.
"""
import hashlib
import json
import os
import re
import shutil
import subprocess
import sys
import time

VERIF = os.path.dirname(os.path.dirname(os.path.abspath(__file__)))
REPO = os.environ.get("VERIF_REPO", "/repo")
SPEC = os.path.join(VERIF, "spec")
HARNESS = os.environ.get("VERIF_HARNESS", os.path.join(VERIF, "harness"))
OUT = os.environ.get("VERIF_OUT", VERIF)      # evidence/, replays/, .work/ live here (redirected when a seeded change is evaluated)
AVH = os.path.join(HARNESS, "target", "release", "avh")
ANTHEM = os.path.join(HARNESS, "target", "release", "avh-anthem")
NCPU = os.cpu_count() or 4


class ToolError(Exception):
    pass


def log(*a):
    print(*a, file=sys.stderr, flush=True)


class Ctx:
    def __init__(self, prop, tier, seed):
        self.prop = prop
        self.tier = tier
        self.seed = seed
        self.t0 = time.time()
        self.work = os.path.join(OUT, ".work", f"{prop}-{os.getpid()}")
        shutil.rmtree(self.work, ignore_errors=True)
        os.makedirs(self.work)
        self.tlc_states = 0
        self.tlc_distinct = 0
        self.tlc_runs = 0
        self.notes = []
        self.replay = None
        self.force_quick = False     # thorough tier of the costliest checks: the sizes of the quick tier under several seeds

    def quick(self):
        return self.tier == "quick" or self.force_quick

    def path(self, name):
        return os.path.join(self.work, name)

    def cleanup(self):
        if not os.environ.get("VERIF_KEEP"):
            shutil.rmtree(self.work, ignore_errors=True)


# ---------------------------------------------------------------------------------- building
def build():
    """(Re)build the harness and the anthem binary from /repo's current working tree, hooks enabled."""
    env = dict(os.environ, CARGO_NET_OFFLINE="true")
    r = subprocess.run(["cargo", "build", "--release", "--offline"], cwd=HARNESS, env=env,
                       stdout=subprocess.PIPE, stderr=subprocess.STDOUT, text=True)
    if r.returncode != 0:
        raise ToolError("harness build failed:\n" + r.stdout[-4000:])
    if not (os.path.exists(AVH) and os.path.exists(ANTHEM)):
        raise ToolError("harness binaries missing after build")


# ---------------------------------------------------------------------------------- TLC
TLC_NOISE = re.compile(r"^(TLC2 |Warning: |Running |Parsing |Semantic |Starting|Computing|Finished computing|Progress|"
                       r"Model checking completed|The depth|Finished in|\(|Implied|Picked up|Linting|  |$|Checking|"
                       r"The average|Estimates|calculated|based on)")


def run_tlc(ctx, module, cfg, env_extra, workers=1, timeout=3600, xss="512m", xmx=None):
    """Run TLC on spec/<module>.tla; returns (printed JSON values, raw output).  A failure of TLC's own file handling (its
    state files under -metadir) is retried once; every other failure is a tool error."""
    try:
        return _run_tlc(ctx, module, cfg, env_extra, workers, timeout, xss, xmx)
    except ToolError as e:
        if "FileNotFoundException" in str(e) or "java.io.IOException" in str(e):
            log(f"[{ctx.prop}] TLC file-system error on {module}, retrying once")
            return _run_tlc(ctx, module, cfg, env_extra, workers, timeout, xss, xmx)
        raise


def _run_tlc(ctx, module, cfg, env_extra, workers=1, timeout=3600, xss="512m", xmx=None):
    meta = ctx.path(f"meta-{module}-{ctx.tlc_runs}")
    ctx.tlc_runs += 1
    env = dict(os.environ)
    env.update({k: str(v) for k, v in env_extra.items()})
    jopts = f"-Xss{xss}"
    if xmx:
        jopts += f" -Xmx{xmx}"
    env["JAVA_TOOL_OPTIONS"] = jopts
    cmd = ["timeout", str(timeout), "tlc", "-workers", str(workers), "-metadir", meta, "-cleanup",
           "-noGenerateSpecTE", "-config", cfg, module + ".tla"]
    r = subprocess.run(cmd, cwd=SPEC, env=env, stdout=subprocess.PIPE, stderr=subprocess.STDOUT, text=True)
    shutil.rmtree(meta, ignore_errors=True)
    out = r.stdout
    vals = []
    for line in out.splitlines():
        if line.startswith('"{') or line.startswith('"['):
            try:
                vals.append(json.loads(json.loads(line)))
            except Exception:
                raise ToolError(f"unparsable TLC output line: {line[:300]}")
    m = re.search(r"(\d+) states generated, (\d+) distinct states found", out)
    if m:
        ctx.tlc_states += int(m.group(1))
        ctx.tlc_distinct += int(m.group(2))
    if r.returncode == 124:
        raise ToolError(f"TLC timed out on {module} after {timeout}s")
    if r.returncode != 0 or "Error:" in out:
        tail = "\n".join(l for l in out.splitlines() if not TLC_NOISE.match(l) and not l.startswith('"{'))[-3000:]
        raise ToolError(f"TLC failed on {module} (exit {r.returncode}):\n{tail}")
    return vals, out


def tlc_generate(ctx, mode, count, depth, extra=None):
    env = {"GEN_MODE": mode, "GEN_COUNT": count, "GEN_DEPTH": depth, "VERIF_SEED": ctx.seed}
    env.update(extra or {})
    vals, _ = run_tlc(ctx, "Gen", "Gen.cfg", env, workers=1, timeout=600, xss="64m")
    return vals


def run_harness(ctx, mode, cases, tag=""):
    cin = ctx.path(f"cases-{mode}{tag}.ndjson")
    cout = ctx.path(f"trace-{mode}{tag}.ndjson")
    with open(cin, "w") as f:
        for c in cases:
            f.write(json.dumps(c) + "\n")
    r = subprocess.run([AVH, mode, cin, cout], stdout=subprocess.PIPE, stderr=subprocess.PIPE, text=True)
    if r.returncode != 0:
        raise ToolError(f"harness failed in mode {mode}: {r.stderr[-2000:]}")
    with open(cout) as f:
        return [json.loads(l) for l in f if l.strip()]


def tlc_validate(ctx, module, records, env_extra, workers=None, timeout=None):
    """Validate trace records with a trace specification; returns verdict dicts."""
    if not records:
        return []
    tr = ctx.path(f"validate-{module}-{ctx.tlc_runs}.ndjson")
    with open(tr, "w") as f:
        for r in records:
            f.write(json.dumps(r) + "\n")
    env = {"VERIF_TRACE": tr, "VERIF_LO": 1, "VERIF_HI": len(records), "VERIF_SEED": ctx.seed,
           "VERIF_PROP": ctx.prop, "VERIF_HTCAP": 6 if ctx.quick() else 7, "VERIF_CLCAP": 10 if ctx.quick() else 11,
           "VERIF_FULLHT": "0" if ctx.quick() else "1"}
    env.update(env_extra or {})
    vals, _ = run_tlc(ctx, module, module + ".cfg", env, workers=workers or min(NCPU, 12), timeout=timeout or (3000 if ctx.quick() else 12000))
    return vals


# ---------------------------------------------------------------------------------- bounded-evaluation parameters
def numerals(x, out):
    if isinstance(x, dict):
        if x.get("k") == "num" and isinstance(x.get("n"), int):
            out.append(x["n"])
        for v in x.values():
            numerals(v, out)
    elif isinstance(x, list):
        for v in x:
            numerals(v, out)


def tree_size(x):
    if isinstance(x, dict):
        return 1 + sum(tree_size(v) for v in x.values() if isinstance(v, (dict, list)))
    if isinstance(x, list):
        return sum(tree_size(v) for v in x)
    return 0


def add_params(ctx, rec, idx, fields, nvars=1, size=10, budget=None):
    """Attach the window/base parameters of the sound bounded evaluation (DESIGN 4.3) to a record.
    The window shrinks with the number of universally enumerated variables; records whose predicted
    grounding cost exceeds the tier's budget are skipped (counted in the evidence)."""
    ns = []
    for f in fields:
        if f in rec:
            numerals(rec[f], ns)
    if [n for n in ns if abs(n) > 20]:
        return "large-numerals"
    # the base contains the small numerals of the case itself (an atom over a numeral of the rule must be able to be true)
    lo, hi = max(min([-1] + ns), -3), min(max([2] + ns), 4)
    margin = {0: 2, 1: 2, 2: 1}.get(nvars, 0)
    if not ctx.quick():
        margin += 1
    wlo = max(min([lo] + ns) - margin, -6)
    whi = min(max([hi] + ns) + margin, 8)
    ext = (idx % 3 == 2) if ctx.quick() else (idx % 2 == 1)
    dom = (whi - wlo + 1) + 2 + 2 + 2
    cost = (dom ** nvars) * size
    if budget is None:
        budget = 60000 if ctx.quick() else 120000
    if cost > budget:
        return "expensive"
    rec["pp"] = {"wlo": wlo, "whi": whi, "lo": lo, "hi": hi, "minsyms": 1, "nbs": 1, "ext": ext}
    return None


# ---------------------------------------------------------------------------------- corpus
def repo_programs():
    """Every mini-gringo program shipped with the repository (res/examples)."""
    out = []
    base = os.path.join(REPO, "res", "examples")
    for root, _, files in os.walk(base):
        for fn in sorted(files):
            if fn.endswith(".lp"):
                p = os.path.join(root, fn)
                try:
                    out.append((os.path.relpath(p, base), open(p).read()))
                except Exception:
                    pass
    return sorted(out)


def strip_comments(text):
    return "\n".join(l.split("%")[0] for l in text.splitlines())


# ---------------------------------------------------------------------------------- findings, evidence, exit
def load_known():
    p = os.path.join(VERIF, "known_findings.json")
    if not os.path.exists(p):
        return []
    return json.load(open(p))


def match_known(prop, violation, known):
    """A known entry matches a violation only through its specific trigger."""
    for k in known:
        if k.get("status") != "known" or k.get("property") != prop:
            continue
        m = k.get("match", {})
        ok = True
        if "check" in m and m["check"] != violation.get("check"):
            ok = False
        if ok and "text_regex" in m and not re.search(m["text_regex"], violation.get("text", ""), re.S):
            ok = False
        if ok and "detail_regex" in m and not re.search(m["detail_regex"], violation.get("detail", ""), re.S):
            ok = False
        if ok:
            return k
    return None


def finish(ctx, level, coverage, violations, assumptions):
    """violations: list of dicts {check, text, detail, case, record, verdict}."""
    known = load_known()
    os.makedirs(os.path.join(OUT, "replays"), exist_ok=True)
    os.makedirs(os.path.join(OUT, "evidence"), exist_ok=True)
    unlisted = []
    listed = {}
    for v in violations:
        k = match_known(ctx.prop, v, known)
        if k:
            listed.setdefault(k["id"], (k, []))[1].append(v)
        else:
            unlisted.append(v)
    for kid, (k, vs) in sorted(listed.items()):
        print(f"KNOWN-FINDING: property={ctx.prop} {kid}: {k['description']} ({len(vs)} occurrence(s) in this run, e.g. {vs[0].get('text','')[:120]!r})")
    seen = set()
    for v in unlisted:
        h = hashlib.sha256(json.dumps([v.get("check"), v.get("text"), v.get("detail")], sort_keys=True).encode()).hexdigest()[:12]
        if h in seen:
            continue
        seen.add(h)
        path = os.path.join(OUT, "replays", f"{ctx.prop}-{h}.json")
        with open(path, "w") as f:
            json.dump({"property": ctx.prop, "tier": ctx.tier, "seed": ctx.seed, **v}, f, indent=1)
        print(f"VIOLATION property={ctx.prop} replay={path}")
        print(f"  check={v.get('check')} input={v.get('text','')[:200]!r}")
        print(f"  {v.get('detail','')[:600]}")
    coverage = dict(coverage)
    coverage.setdefault("tlc_states_generated", ctx.tlc_states)
    coverage.setdefault("tlc_distinct_states", ctx.tlc_distinct)
    coverage.setdefault("tlc_runs", ctx.tlc_runs)
    coverage["known_findings_hit"] = sorted(listed.keys())
    ev = {
        "property_id": ctx.prop, "tier": ctx.tier, "seed": ctx.seed, "level": level,
        "coverage": dict(coverage, thorough_as_seeds="this thorough run uses the sizes of the quick tier; the thorough command runs it under seeds s, s+1, s+2") if ctx.force_quick else coverage,
        "assumptions": assumptions + ctx.notes, "wall_s": round(time.time() - ctx.t0, 1),
        "violations": len(seen),
    }
    with open(os.path.join(OUT, "evidence", f"{ctx.prop}.json"), "w") as f:
        json.dump(ev, f, indent=1)
    log(f"[{ctx.prop}] tier={ctx.tier} seed={ctx.seed} wall={ev['wall_s']}s violations={len(seen)} known={sorted(listed.keys())}")
    return 1 if seen else 0


def wit_str(v):
    w = v.get("wit")
    if not w:
        return ""

    def val(x):
        tag, lo, hi = x
        if tag == 0:
            return "#inf"
        if tag == 3:
            return "#sup"
        if tag == 2:
            return f"sym#{lo}" if lo else "sym#other"
        return str(lo) if lo == hi else f"int[{lo}..{hi}]"

    def atom(a):
        return a[0] + ("(" + ",".join(val(x) for x in a[1]) + ")" if a[1] else "")

    def env(e):
        if isinstance(e, dict):
            return {k: val(x) for k, x in e.items()}
        return e

    parts = []
    if isinstance(w, dict):
        for key in ("H", "T", "Ih", "It", "I"):
            if key in w:
                parts.append(f"{key}={{{', '.join(sorted(atom(a) for a in w[key]))}}}")
        for key in ("anthem", "reference", "env", "note", "axiom", "pair", "renamed", "got", "expected", "symbols", "vars", "error", "used"):
            if key in w and w[key] not in ([], "", {}):
                parts.append(f"{key}={env(w[key]) if key == 'env' else w[key]}")
    else:
        parts.append(str(w))
    return " ".join(parts)


def collect(verdicts, records, prefix):
    """Group verdict lines of the wanted checks; returns (stats, violations)."""
    by_id = {r["id"]: r for r in records}
    stats = {"verdicts": 0, "agree": 0, "disagree": 0, "skip": 0, "evaluations": 0, "unknown": 0, "identical": 0,
             "nontrivial_ids": set(), "vacuous": 0, "groups": 0}
    violations = []
    for v in verdicts:
        if not v.get("check", "").startswith(prefix):
            continue
        stats["verdicts"] += 1
        if v["v"] == "skip":
            stats["skip"] += 1
            continue
        stats["evaluations"] += v.get("n", 0)
        stats["unknown"] += v.get("unk", 0)
        stats["identical"] += v.get("ident", 0)
        stats["groups"] += v.get("groups", 0)
        rec = by_id.get(v["id"], {})
        if v["v"] == "DISAGREE":
            stats["disagree"] += 1
            violations.append({"check": v["check"], "text": rec.get("text", v["id"]),
                               "detail": f"{v['check']}: counterexample {wit_str(v)}", "record": rec, "verdict": v})
        else:
            stats["agree"] += 1
            # non-vacuous: reference side was both true and false on explored interpretations, or the
            # groundings are identical and mention atoms
            if (v.get("t", 0) > 0 and v.get("f", 0) > 0) or (v.get("ident", 0) > 0 and v.get("atoms", 1) > 0):
                stats["nontrivial_ids"].add(v["id"])
            else:
                stats["vacuous"] += 1
    return stats, violations
