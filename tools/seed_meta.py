#!/usr/bin/env python3
"""Writes seeded/<id>/meta.json from notes.md, confirm.log and seeded/detection.json (which check caught the change)."""
import json, os, re
S = os.path.join(os.path.dirname(os.path.dirname(os.path.abspath(__file__))), "seeded")
det = json.load(open(os.path.join(S, "detection.json"))) if os.path.exists(os.path.join(S, "detection.json")) else {}
for d in sorted(os.listdir(S)):
    p = os.path.join(S, d)
    if not os.path.isdir(p):
        continue
    notes = open(os.path.join(p, "notes.md")).read() if os.path.exists(os.path.join(p, "notes.md")) else ""
    title = notes.splitlines()[0].lstrip("# ").strip() if notes else d
    m = re.search(r"##[^\n]*(needed|manifest|[Tt]rigger)[^\n]*\n(.*?)(\n## |\Z)", notes, re.S)
    needs = m.group(2).strip() if m else ""
    conf = open(os.path.join(p, "confirm.log")).read() if os.path.exists(os.path.join(p, "confirm.log")) else ""
    meta = {
        "id": d, "property": d.split("-")[0], "title": title,
        "needs_to_manifest": needs[:3000],
        "origin": "independent sub-agent given only the property text and a scratch worktree",
        "confirmed": "CONFIRMED" in conf,
        "what_was_run": "tools/confirm_seed.sh: patch applies to clean HEAD; cargo test --offline --no-fail-fast on the changed tree passes the "
                        "same 141 tests; demo.sh exits 0 with the clean binary and non-zero with the changed binary; afterwards "
                        "tools/run_seeded.sh applies the patch to /repo, runs the check and restores /repo",
        "confirm_log": conf[-1500:],
        "detection": det.get(d, {"status": "not yet run"}),
    }
    json.dump(meta, open(os.path.join(p, "meta.json"), "w"), indent=1)
print("meta.json written for", len([d for d in os.listdir(S) if os.path.isdir(os.path.join(S, d))]), "seeded changes")
