"""C11: applicability checks are exact and enforced before any obligation is emitted."""
import json
import os
import re
import shutil
import subprocess

import vcheck as V
import p_core as C
import p_equiv as E
import p_pipeline
from vcheck import ToolError

REG_PROGRAMS = [
    "a.", "p(1 + 2).", "p(1 - 2).", "p(1 * 2).", "p(X..Y).", "p(1 / 2).", "p(1 \\ 2).", "p(X) :- X = (1..X) + Y.", "p(a + 1).", "p(a..5).",
    "p(-a).", "p(-X).", "p(-(1..2)).", "p(#inf).", "p(#inf + 1).", "p(1..#sup).", "p(X) :- q(X), X = 1..2.", "p(X) :- q(X), 1..2 = X.",
    "p(X) :- q(X), X != 1..2.", "p(X) :- q(X), X < 1..2.", "p(X) :- q(1..2).", "p(X) :- q(X + a).", "p(X) :- q(X), X = a.", "p(X) :- q(X), X < #sup.",
    "p(X) :- not q(X * (Y - 1)), r(Y).", "{p(1..2)}.", "{p(X / 2)} :- q(X).", ":- q(X), X = 2 / Y, r(Y).", ":- q(X \\ 2).", "p((1..2)..3).",
    "p(1..(2..3)).", "p(X, 1..2, X + 1) :- q(X).", "p(2 * (X + 1) - -X) :- q(X).", "p(X) :- q(X), X = (1 + a)..2.", "p(X) :- q(X), X = 1..(2 * a).",
]


def cli_print(anthem, prop, text, work):
    f = os.path.join(work, "prog.lp")
    with open(f, "w") as fh:
        fh.write(text)
    r = subprocess.run([anthem, "analyze", "--property", prop, f], stdout=subprocess.PIPE, stderr=subprocess.PIPE, text=True, timeout=60)
    return r.returncode, r.stdout.strip()


def run_C11(ctx):
    V.build()
    q = ctx.quick()
    _, out = V.run_tlc(ctx, "MCAnalysis", "MCAnalysis.cfg", {}, workers=4, timeout=900, xss="64m")
    m = re.search(r"(\d+) states generated, (\d+) distinct states found", out)
    if not m:
        raise ToolError("design check MCAnalysis failed")
    gen, dist = int(m.group(1)), int(m.group(2))
    # --- analyses
    progs = V.tlc_generate(ctx, "absprog", 1500 if q else 40000, 1, {"GEN_STRIDE": 7919})
    progs += V.tlc_generate(ctx, "cycle", 60 if q else 600, 1)
    progs += V.tlc_generate(ctx, "sysrule", 300 if q else 1476, 2, {"GEN_STRIDE": 29 if q else 1})
    progs += V.tlc_generate(ctx, "sysnest", 150 if q else 3000, 2, {"GEN_STRIDE": 211 if q else 2})
    progs += V.tlc_generate(ctx, "program", 150 if q else 2000, 2)
    progs += [{"id": f"reg{i}", "prog": p} for i, p in enumerate(REG_PROGRAMS + C.TABLE_PROGRAMS)]
    for i, (name, text) in enumerate(V.repo_programs()):
        progs.append({"id": f"repo{i}", "prog": V.strip_comments(text)})
    arecs = [r for r in V.run_harness(ctx, "analyze", progs) if r["kind"] in ("analyze", "panic")]
    panics = [r for r in arecs if r["kind"] == "panic"]
    arecs = [r for r in arecs if r["kind"] == "analyze"]
    seen, au = set(), []
    for r in arecs:
        if r["text"] not in seen:
            seen.add(r["text"])
            au.append(r)
    # --- tasks
    tasks = V.tlc_generate(ctx, "extbad", 140 if q else 2800, 1)
    tasks += V.tlc_generate(ctx, "ext", 40 if q else 600, 1)
    fs = [{"mu": False, "sequential": True, "simplify": True, "eqbreak": True, "direction": "universal", "bypass": False},
          {"mu": False, "sequential": False, "simplify": False, "eqbreak": True, "direction": "universal", "bypass": True},
          # the conditions do not depend on the direction that is asked for
          {"mu": False, "sequential": False, "simplify": True, "eqbreak": False, "direction": "forward", "bypass": False},
          {"mu": False, "sequential": True, "simplify": False, "eqbreak": True, "direction": "backward", "bypass": False}]
    for t in tasks:
        t["flagsets"] = fs
    trecs = []
    tseen = set()
    for r in V.run_harness(ctx, "problems", tasks):
        if r["kind"] == "external" and r["text"] not in tseen:
            tseen.add(r["text"])
            for fm in r["families"]:
                fm.pop("problems", None) if False else None
                if "problems" in fm:
                    fm["problems"] = [{"name": p["name"]} for p in fm["problems"]]   # acceptance only: drop the formulas
            trecs.append(r)
    verdicts = V.tlc_validate(ctx, "TraceSem", au + trecs, {})
    stats, violations = V.collect(verdicts, au + trecs, "C11")
    for p in panics:
        violations.append({"check": "C11.panic", "text": p["text"], "detail": "anthem panicked: " + p["panic"], "record": p})
    # --- CLI: what `analyze` prints equals the in-process answer; a refused task writes no problem file
    work = ctx.path("cli")
    os.makedirs(work, exist_ok=True)
    ncli = 0
    for r in au[:: max(1, len(au) // (60 if q else 600))]:
        for prop, key in (("tightness", "tight"), ("regularity", "regular")):
            rc, printed = cli_print(V.ANTHEM, prop, r["text"], work)
            ncli += 1
            if rc != 0 or printed != ("true" if r[key] else "false"):
                violations.append({"check": "C11.cli_prints_analysis", "text": r["text"],
                                   "detail": f"analyze --property {prop} printed {printed!r} (exit {rc}), library says {r[key]}", "record": r})
    by_id = {t["id"]: t for t in tasks}
    nref = 0
    for r in trecs:
        if all("error" in fm for fm in r["families"]) and nref < (25 if q else 300):
            nref += 1
            t = by_id[r["id"]]
            d = os.path.join(work, "task")
            shutil.rmtree(d, ignore_errors=True)
            os.makedirs(os.path.join(d, "save"))
            names = []
            for key, fn in (("spec", "s.spec"), ("left", "a.lp"), ("right", "b.lp"), ("ug", "u.ug")):
                if key in t:
                    with open(os.path.join(d, fn), "w") as fh:
                        fh.write(t[key] + "\n")
                    names.append(os.path.join(d, fn))
            rr = subprocess.run([V.ANTHEM, "verify", "--equivalence", "external", "--no-proof-search", "--save-problems", os.path.join(d, "save")] + names,
                                stdout=subprocess.PIPE, stderr=subprocess.PIPE, text=True, timeout=120)
            files = os.listdir(os.path.join(d, "save"))
            if rr.returncode == 0 or files or not rr.stderr.strip():
                violations.append({"check": "C11.refused_task_emits_nothing", "text": r["text"],
                                   "detail": f"CLI exit {rr.returncode}, files written {files}, stderr {rr.stderr[-200:]!r}", "record": {"task": t}})
    # --- the stage discipline of `verify` with proof search on (Pipeline.tla): all fault x flag scenarios of the model on real tasks
    _, pout = V.run_tlc(ctx, "MCPipeline", "MCPipeline.cfg", {}, workers=2, timeout=600, xss="64m")
    if "No error has been found" not in pout:
        raise ToolError("design check MCPipeline failed")
    pstats, pviol = p_pipeline.pipeline_check(ctx)
    pstats["tlaps_obligations_proved"] = p_pipeline.tlaps_proof(ctx)
    violations += pviol
    by_check = {}
    for v in verdicts:
        by_check[v["check"] + ":" + v["v"]] = by_check.get(v["check"] + ":" + v["v"], 0) + 1
    refused = len([v for v in verdicts if v["check"] == "C11.refused_iff_a_condition_fails" and v.get("f", 0) > 0])
    coverage = {
        "states": dist, "transitions": gen, "traces_validated_against_impl": len(au) + len(trecs),
        "evaluations": len(au) + len(trecs) + ncli + nref, "distinct_nontrivial": len(au) + len(trecs),
        "programs_analysed": len(au), "not_tight": len([r for r in au if not r["tight"]]), "not_regular": len([r for r in au if not r["regular"]]),
        "tasks": len(trecs), "task_families_refused_for_a_listed_reason": refused, "cli_analyze_runs": ncli, "cli_refused_runs": nref,
        "verdicts_by_check": by_check, **pstats,
        "rule": "design: two definitions of cyclicity agree on all 65536 graphs with <= 4 nodes; the stage machine of verify (Pipeline) keeps "
                "its invariants in all 1317 states and every fault x flag scenario is replayed on real tasks with a stand-in prover; analyses: abstract programs over p/1, p/2, q/1, r/0 "
                "(2-3 rules, every head kind, <= 2 signed body literals; strided sample of the 253^2 space), long cycles with one negated edge, "
                "every term shape of depth <= 2 in every rule position for regularity, random programs, repository programs; tasks: generated "
                "external tasks each violating (or only seeming to violate) one listed condition, with and without --bypass-tightness; "
                "distinct by text",
        "samples": [{"program": r["text"], "tight": r["tight"], "regular": r["regular"]} for r in au[:3]] +
                   [{"task": r["text"], "families": [("error" in fm, fm["flags"]["bypass"]) for fm in r["families"]]} for r in trecs[:2]],
        "exhaustive": False,
    }
    return V.finish(ctx, "model_checking", coverage, violations, [
        "the listed conditions are those of the property statement; other refusal reasons (mu representation, unsupported roles) are not judged",
        "a task all of whose listed conditions hold must be accepted when both sides are programs"])
