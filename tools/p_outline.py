"""C13: a proof outline cannot make an unjustified claim available as an axiom."""
import json
import re

import vcheck as V
import p_core as C
import p_equiv as E
from vcheck import ToolError

PREFIX = re.compile(r"^formula_\d+_")
OUTLINE_HAND = [
    "lemma[e1]: forall X (p(X) -> q(X)). lemma[e2]: forall X (p(X) -> X > 0).",
    "inductive-lemma[e1]: forall N$i (N$i >= 0 -> (q(N$i) -> p(N$i) or N$i = 0)).",
    "definition[e1]: forall X (d1(X) <-> q(X) and X > 1). lemma[e2]: forall X (d1(X) -> p(X)).",
    "lemma(forward)[e1]: forall X (p(X) -> q(X)). lemma(backward)[e2]: forall X (p(X) -> X > 0). lemma[e3]: not p(0).",
    "definition(forward)[e1]: forall X (d1(X) <-> q(X)). definition(backward)[e2]: forall X (d2(X) <-> q(X)). lemma[e3]: forall X (p(X) -> q(X)).",
    "inductive-lemma(backward)[e1]: forall N$i (N$i >= -1 -> (p(N$i) -> q(N$i))). lemma(backward)[e2]: forall X (p(X) -> q(X)).",
    "definition[e1]: forall X (d1(X) <-> d2(X)). definition[e2]: forall X (d2(X) <-> q(X)).",
    "definition[e1]: forall X (d1(X) <-> q(X) and not d2(X)). definition[e2]: forall X (d2(X) <-> d1(X) or not q(X)). lemma[e3]: forall X (not q(X)).",
    "definition[e1]: forall X (aux_p(X) <-> q(X)). lemma[e2]: forall X (aux_p(X) -> q(X)).",
    "definition[e1]: forall X (aux(X) <-> q(X)).", "definition[e1]: forall X (r(X) <-> q(X)).",
    # lemmas that are not universally quantified implications; definitions whose quantifier list and argument list differ
    "lemma[e1]: exists X (p(X) and q(X)) or not exists X p(X). lemma[e2]: forall X (p(X) -> q(X)).",
    "lemma(forward)[e1]: exists X (q(X) and X > 0) or forall X (q(X) -> not p(X)). lemma[e2]: (forall X (p(X) -> q(X))) and (exists X q(X) or not exists X p(X)).",
    "lemma[e1]: exists X (p(X) and q(X)).", "lemma(backward)[e1]: exists X (q(X) and not p(X)). lemma[e2]: forall X (p(X) -> q(X)).",
    "lemma[e1]: forall Y exists X (q(Y) -> p(X) and q(X)).", "lemma(forward)[e1]: exists X Y (p(X) and q(Y) and X < Y).",
    "inductive-lemma[e1]: forall N$i (N$i >= 0 -> exists X (q(X) and X > N$i) or not q(N$i + 1)). lemma[e2]: exists X (p(X) and X > 0).",
    "definition[e1]: forall X Y (d1(X) <-> t(X, Y)). lemma[e2]: forall X (d1(X) -> d1(X)).", "definition[e1]: forall X Y (d1(X) <-> q(X) and q(Y)).",
    "definition[e1]: forall X (d1(X, X) <-> q(X)).", "definition[e1]: forall X Y (d1(Y, X) <-> q(X) and Y = X). lemma[e2]: forall X (d1(X, X) <-> q(X)).",
    "inductive-lemma[e1]: forall N$i (N$i >= 0 -> forall X (X = N$i + 1 and q(X) -> p(X))). inductive-lemma[e2]: forall N$i (N$i >= 0 -> (exists N$i q(N$i)) or p(N$i) or not q(N$i)).",
]


def strip(name):
    return PREFIX.sub("", name)


def run_C13(ctx):
    V.build()
    q = ctx.quick()
    _, out = V.run_tlc(ctx, "MCOutline", "MCOutline.cfg", {}, workers=4, timeout=900, xss="64m")
    m = re.search(r"(\d+) states generated, (\d+) distinct states found", out)
    if not m:
        raise ToolError("design check MCOutline failed")
    gen, dist = int(m.group(1)), int(m.group(2))
    cases = V.tlc_generate(ctx, "outline", 260 if q else 6000, 1)
    base = {"task": "external", "left": "aux(X) :- q(X), X > 0. p(X) :- aux(X).", "right": "aux(X) :- q(X), X >= 1. p(X) :- aux(X).",
            "ug": "input: q/1. output: p/1. output: r/1."}
    cases += [dict(base, id=f"h{i}", po=po) for i, po in enumerate(OUTLINE_HAND)]
    # lemmas that mention only placeholders
    pbase = {"task": "external", "left": "p(X) :- q(X), X > n.", "right": "p(X) :- q(X), X >= n + 1.", "ug": "input: q/1. output: p/1. input: n -> integer."}
    for i, po in enumerate(["lemma[e1]: n >= 1 or n < 1.", "lemma[e1]: n >= 1 or n < 1. lemma(forward)[e2]: forall X (p(X) -> X > n).",
                            "lemma(backward)[e1]: n != n + 1. lemma[e2]: forall X (p(X) -> q(X))."]):
        cases.append(dict(pbase, id=f"ph{i}", po=po))
    fs = E.ext_flagsets()
    for i, c in enumerate(cases):
        c["flagsets"] = [fs[7], fs[(i * 3) % 8]] if q else [fs[k] for k in (0, 3, 5, 7)]
        if i % 5 == 4:
            c["flagsets"] = c["flagsets"] + [dict(fs[7], direction="forward"), dict(fs[0], direction="backward")]
    recs = V.run_harness(ctx, "problems", cases)
    usable, skipped, violations = [], {}, []
    seen = set()
    accepted = refused = 0
    for r in recs:
        if r["kind"] != "external" or r["text"] in seen:
            continue
        seen.add(r["text"])
        names = [e["name"] for e in r["po"]]
        if len(set(names)) != len(names):
            continue
        obs, induction, est = [], [], []
        for fm in r["families"]:
            if "panic" in fm:
                violations.append({"check": "C13.panic", "text": r["text"], "detail": f"anthem panicked: {fm['panic']}", "record": {"task": r["text"]}})
                fm["error"] = "panic: " + fm["panic"]
            ps, ind = [], []
            plain = {e["name"] for e in r["po"] if e["role"] == "lemma"}
            uses, conjs, seen_use = [], [], set()
            for k, p in enumerate(fm.get("problems", []), start=1):
                fwd = p["name"].startswith("forward")
                for f in p["formulas"]:
                    nm = strip(f["name"])
                    if nm in plain and f["conj"]:
                        conjs.append({"k": k, "fwd": fwd, "f": f["f"]})
                    elif nm in plain and (nm, fwd, json.dumps(f["f"], sort_keys=True)) not in seen_use:
                        seen_use.add((nm, fwd, json.dumps(f["f"], sort_keys=True)))
                        uses.append({"k": k, "fwd": fwd, "name": nm, "f": f["f"]})
            est.append({"uses": uses, "conjs": conjs})
            for p in fm.get("problems", []):
                ax = [strip(f["name"]) for f in p["formulas"] if not f["conj"]]
                cj = [strip(f["name"]) for f in p["formulas"] if f["conj"]]
                ps.append({"name": p["name"], "fwd": p["name"].startswith("forward"), "axioms": ax, "conj": cj[0] if cj else ""})
                for f in p["formulas"]:
                    nm = strip(f["name"])
                    if f["conj"] and (nm.endswith("base_case") or nm.endswith("inductive_step")) and not any(x["name"] == nm for x in ind):
                        ind.append({"name": nm, "f": f["f"]})
            obs.append(ps)
            induction.append(ind)
            if "problems" in fm:
                accepted += 1
                fm["problems"] = [{"name": p["name"]} for p in fm["problems"]]
            else:
                refused += 1
        r["obs"] = obs
        r["induction"] = induction
        r["est"] = est
        trees = [x["f"] for ind in induction for x in ind] + [e["f"] for e in r["po"]] + [u["f"] for e in est for u in e["uses"]]
        why, _ = C.formula_cost_params(ctx, r, len(usable), trees, extra_free=1)
        if why is None:
            r["pp"].update({"lo": -1, "hi": 1, "nbs": 1, "ext": False})
            usable.append(r)
        else:
            skipped[why] = skipped.get(why, 0) + 1
    verdicts = V.tlc_validate(ctx, "TraceSem", usable, {})
    stats, viol = V.collect(verdicts, usable, "C13")
    violations += viol
    by_check = {}
    for v in verdicts:
        by_check[v["check"] + ":" + v["v"]] = by_check.get(v["check"] + ":" + v["v"], 0) + 1
    coverage = {
        "states": dist, "transitions": gen, "traces_validated_against_impl": len(usable), "evaluations": stats["evaluations"] + stats["verdicts"],
        "distinct_nontrivial": len(usable), "outlines": len(usable), "families_accepted": accepted, "families_refused": refused,
        "verdicts_by_check": by_check, "unknown_evaluations": stats["unknown"], "skipped": skipped,
        "rule": "design: Outline.tla, every outline of <= 3 entries x kinds x direction annotations x task direction: a lemma is an axiom only of "
                "problems emitted after all problems establishing it; runs: outlines of 1-4 named entries derived by TLC (spec/Gen.tla mode outline: "
                "lemmas, inductive lemmas and definitions with every direction annotation, each pool mixing acceptable entries with entries "
                "violating one acceptance condition) on three small tasks x flag sets: (i) accepted iff every entry satisfies the acceptance "
                "predicates of spec/TraceSem.tla with the taken-predicate set evolving, (ii) the sequencing condition evaluated on the observed "
                "problem list, (iii) base case and inductive step classically equivalent to F(n) and (N >= n and F(N) -> F(N+1)) computed by "
                "ASSIGNING the induction variable; distinct by task text",
        "samples": [{"outline": r["text"], "families": [("error" in fm) for fm in r["families"]]} for r in usable[:3]], "exhaustive": False,
    }
    return V.finish(ctx, "model_checking", coverage, violations, C.TV_ASSUME + [
        "'occurs nowhere in the task' is read as the code's and the manual's notion of taken predicates (inputs and the predicates of both "
        "translated sides, after renaming); a lemma may mention a predicate defined later (all accepted definitions of a direction are axioms "
        "of every outline problem of that direction)"])
