"""C03 (strong equivalence obligations), C02 (external equivalence obligations) and C19 (flags never change the claim)."""
import itertools
import json
import os

import vcheck as V
import p_core as C

STRONG_PAIRS = [
    ("p(X) :- q(X).", "p(X) :- q(X), not r(X)."), ("p(X) :- q(X).", "p(X) :- q(X). p(X) :- q(X), r(X)."),
    ("{p(X)} :- q(X).", "p(X) :- q(X), not not p(X)."), ("p(1..2).", "p(1). p(2)."), ("p(X) :- q(X), X > 0.", "p(X) :- q(X), 0 < X."),
    ("p(X+1) :- q(X).", "p(Y) :- q(X), Y = X+1."), ("s :- not not s.", "{s}."), ("s :- not s.", ":- not s."), ("p(a).", "p(b)."),
    (":- p(X), q(X).", ":- q(X), p(X)."), ("p(X) :- q(X). q(X) :- p(X).", "p(X) :- q(X)."), ("s :- p(1).", "s :- p(1), not not p(1)."),
    ("p(X) :- q(X), not p(X).", ":- q(X), not p(X)."), ("p(X/2) :- q(X).", "p(Y) :- q(X), Y = X/2."), ("p(X) :- X = 1..2.", "p(1..2)."),
    ("p(X) :- q(X), X != 1.", "p(X) :- q(X), X < 1. p(X) :- q(X), X > 1."), ("t(X, Y) :- q(X), q(Y).", "t(Y, X) :- q(X), q(Y)."),
    ("{p(1)}.", "p(1) :- not not p(1)."),
    # one predicate name at two arities; constraints with positive bodies
    ("p(1). s :- p(X, Y), not p(X, Y).", "p(1)."), ("p(X) :- p(X, Y). p(1, 2).", "p(1). p(1, 2)."), ("q(X) :- q(X, X), not q.", "q(X) :- q(X, X), not q, not not q(X, X)."),
    (":- p(1).", ":- not not p(1)."), (":- p(X), q(X).", ":- p(X), not not q(X)."), (":- s.", ":- not not s."), ("s :- p(1). :- s.", ":- p(1). s :- p(1)."), ("s. p(1) :- s.", "s. p(1)."), ("p(X) :- q(X), not not r(X).", "p(X) :- q(X), r(X)."),
]


def flagsets(direction="universal"):
    out = []
    for mu, seq, simp, eqb in itertools.product([False, True], repeat=4):
        out.append({"mu": mu, "sequential": seq, "simplify": simp, "eqbreak": eqb, "direction": direction, "bypass": False})
    return out


def strong_cases(ctx, n_q, n_t, fs_per_case_quick=5):
    cases = V.tlc_generate(ctx, "pair", n_q if ctx.quick() else n_t, 1 if ctx.quick() else 2)
    cases += [{"id": f"h{i}", "left": l, "right": r} for i, (l, r) in enumerate(STRONG_PAIRS)]
    base = os.path.join(V.REPO, "res", "examples", "strong_equivalence")
    for d in sorted(os.listdir(base)):
        lps = sorted(f for f in os.listdir(os.path.join(base, d)) if f.endswith(".lp"))
        if len(lps) >= 2:
            cases.append({"id": f"ex-{d}", "left": V.strip_comments(open(os.path.join(base, d, lps[0])).read()),
                          "right": V.strip_comments(open(os.path.join(base, d, lps[1])).read())})
    allfs = flagsets()
    for i, c in enumerate(cases):
        c["task"] = "strong"
        if ctx.quick():
            # a rotating subset that always contains the plain and the fully processed family
            pick = {0, 15, (i * 7 + ctx.seed) % 16, (i * 3 + 5) % 16, (i * 5 + 9) % 16}
            c["flagsets"] = [allfs[k] for k in sorted(pick)]
        else:
            c["flagsets"] = allfs
        if i % 4 == 3:
            c["flagsets"] = c["flagsets"] + [dict(allfs[15], direction="forward"), dict(allfs[12], direction="backward")]
    return cases


def strong_records(ctx, n_q, n_t):
    cases = strong_cases(ctx, n_q, n_t)
    recs = V.run_harness(ctx, "problems", cases)
    usable, skipped, panics = [], {}, []
    seen = set()
    for r in recs:
        if r["kind"] != "strong":
            continue
        if r["text"] in seen:
            continue
        seen.add(r["text"])
        for fm in r["families"]:
            if "panic" in fm:
                panics.append({"text": r["text"], "panic": fm["panic"], "flags": fm["flags"]})
        trees = [f["f"] for fm in r["families"] if "problems" in fm for p in fm["problems"] for f in p["formulas"]]
        natoms = sum(3 ** p["n"] for p in r["preds"])
        if natoms > (18 if ctx.quick() else 21):
            skipped["too-many-base-atoms"] = skipped.get("too-many-base-atoms", 0) + 1
            continue
        biggest = max([C.qdepth(t) for t in trees] + [0])
        nv = max([len(x["vars"]) for x in r["left"] + r["right"]] + [0])
        why = V.add_params(ctx, r, len(usable), ["left", "right"], nvars=max(nv, biggest), size=max([V.tree_size(t) for t in trees] + [1]),
                           budget=5000000 if ctx.quick() else 8000000)
        if why is None:
            r["pp"].update({"lo": 0, "hi": 1, "ext": False, "nbs": 1})
            usable.append(r)
        else:
            skipped[why] = skipped.get(why, 0) + 1
    return cases, usable, skipped, panics


def run_C03(ctx):
    V.build()
    cases, usable, skipped, panics = strong_records(ctx, 180, 60)
    verdicts = V.tlc_validate(ctx, "TraceSem", usable, {"VERIF_HTCAP": 6})
    stats, violations = V.collect(verdicts, usable, "C03")
    for v in violations:
        v["detail"] += f"  [flags: {v['verdict'].get('note')}]"
    for p in panics:
        violations.append({"check": "C03.panic", "text": p["text"], "detail": f"anthem panicked under {p['flags']}: {p['panic']}", "record": p})
    coverage = {
        "programs": len(usable), "cases_generated": len(cases), "families_checked": stats["verdicts"],
        "disagreements_checked": stats["verdicts"] - stats["skip"], "evaluations": stats["evaluations"], "unknown_evaluations": stats["unknown"],
        "distinct_nontrivial": len(stats["nontrivial_ids"]), "vacuous_or_constant": stats["vacuous"], "skipped": skipped,
        "rule": "pairs of programs derived by TLC (spec/Gen.tla mode pair: one more rule / identical / unrelated) + hand-written (non-)equivalent "
                "pairs + res/examples/strong_equivalence; x {tau-star, mu} x decomposition x simplify x eq-break (quick: 5 of the 16 families per "
                "pair) and forward/backward-only directions; for EVERY pair of extents (H, T) of the h-/t-copies over the base atoms (H need not "
                "be below T): a forward problem is refuted iff H below T, (H,T) HT-satisfies the left program (reference grounding) and not the "
                "right; non-trivial = some interpretation refutes and some does not",
        "samples": C.sample_records(usable, [v for v in verdicts if v["check"].startswith("C03")][:40]), "exhaustive": False,
    }
    return V.finish(ctx, "translation_validation", coverage, violations, C.TV_ASSUME + [
        "vocabularies are free of the identifier clashes anthem resolves by renaming (C09's subject)"])


# ------------------------------------------------------------------------------------------------ C02
UG0 = "input: q/1. output: p/1."
EXT_HAND = [
    {"left": "p(X) :- q(X).", "right": "p(X) :- q(X), not aux(X). aux(X) :- q(X), X < 0.", "ug": UG0},
    {"left": "p(X) :- q(X), X > n.", "right": "p(X) :- q(X), X >= n + 1.", "ug": UG0 + " input: n -> integer."},
    {"left": "aux(X) :- q(X), X > 0. p(X) :- aux(X).", "right": "aux(X) :- q(X), X < 1. p(X) :- q(X), not aux(X).", "ug": UG0},
    {"left": "p(X) :- q(X).", "right": "p(X) :- q(X). :- q(a).", "ug": UG0 + " assumption: forall X (q(X) -> X != a)."},
    {"left": "p(X) :- q(X).", "right": "p(X) :- q(X). :- q(a).", "ug": UG0},
    {"left": "{p(X)} :- q(X).", "right": "p(X) :- q(X), not not p(X).", "ug": UG0},
    {"left": "p(X+1) :- q(X).", "right": "p(Y) :- q(X), Y = X+1.", "ug": UG0},
    {"left": "p(X) :- q(X), not r(X). r(X) :- q(X), X > 0.", "right": "p(X) :- q(X), X <= 0.", "ug": UG0},
    {"left": "p(X) :- q(X), not r(X). r(X) :- q(X), X > 0.", "right": "p(X) :- q(X), X <= 0. r(X) :- q(X), X > 0.", "ug": UG0 + " output: r/1."},
    {"spec": "spec: forall X (p(X) <-> q(X) and X > 0).", "right": "p(X) :- q(X), X > 0.", "ug": UG0},
    {"spec": "spec: forall X (p(X) <-> q(X) and X > 0).", "right": "p(X) :- q(X), X >= 0.", "ug": UG0},
    {"spec": "spec(forward): forall X (p(X) -> q(X)). spec(backward): forall X (q(X) and X > 0 -> p(X)).", "right": "p(X) :- q(X), X > 1.", "ug": UG0},
    {"spec": "assumption: forall X (q(X) -> X > 0). spec: forall X (p(X) <-> q(X)).", "right": "p(X) :- q(X), X > 0.", "ug": UG0},
    {"spec": "assumption(forward): forall X (q(X) -> X > 0). spec: forall X (p(X) <-> q(X)).", "right": "p(X) :- q(X), X > 0.", "ug": UG0},
    {"spec": "spec: forall X (p(X) <-> exists Y (aux(Y) and X = Y)). assumption: forall X (aux(X) -> q(X)).",
     "right": "aux(X) :- q(X), X != 1. p(X) :- aux(X).", "ug": UG0},
    {"left": "aux(X) :- q(X). p(X) :- aux(X), not aux(X+1).", "right": "p(X) :- q(X), not q(X+1).", "ug": UG0},
    {"left": "s :- q(1). p(X) :- q(X), not s.", "right": "p(X) :- q(X), not q(1).", "ug": UG0},
    {"left": "p(X) :- q(X), X = n.", "right": "p(n) :- q(n).", "ug": UG0 + " input: n -> integer."},
    {"left": "p(X) :- q(X), X = c.", "right": "p(c) :- q(c).", "ug": UG0 + " input: c."},
    # a private predicate that one side only uses (no rule) and the other side defines
    {"left": "p(X) :- q(X), not aux(X).", "right": "aux(X) :- q(X). p(X) :- q(X), not aux(X).", "ug": UG0},
    {"left": "aux(X) :- q(X), X > 0. p(X) :- q(X), not aux(X).", "right": "p(X) :- q(X), not aux(X).", "ug": UG0},
    {"left": "p(X) :- q(X), aux(X).", "right": "aux(X) :- q(X+1). p(X) :- q(X), aux(X).", "ug": UG0},
    # specifications that are not definitions
    {"spec": "spec: exists X (p(X) <-> not q(X)).", "right": "p(X) :- q(X).", "ug": UG0 + " assumption: q(1) and not q(0)."},
    {"spec": "spec: exists X (p(X) <-> not q(X)).", "right": "p(X) :- q(X).", "ug": UG0},
    {"spec": "spec: forall X (exists Y (p(X) <-> q(Y))).", "right": "p(X) :- q(X).", "ug": UG0},
    {"spec": "spec: exists X (q(X) and (p(X) <-> X > 0)).", "right": "p(X) :- q(X), X > 0.", "ug": UG0},
    {"spec": "spec: (exists X q(X)) <-> (exists X p(X)).", "right": "p(X) :- q(X), X > 0.", "ug": UG0},
    {"spec": "spec: not forall X (p(X) <-> q(X)).", "right": "p(X) :- q(X), X != 0.", "ug": UG0},
    # a universally quantified equivalence with a variable on one side only; a private predicate without rules
    {"spec": "spec: forall X Y (p(X) <-> t(X, Y)).", "right": "p(X) :- t(X, X).", "ug": "input: t/2. output: p/1."},
    {"spec": "spec: forall X Y (t(X, Y) <-> p(X)).", "right": "p(X) :- t(X, Y).", "ug": "input: t/2. output: p/1."},
    {"left": "p(X) :- q(X).", "right": "p(X) :- q(X), not aux(X).", "ug": UG0},
    {"left": "p(X) :- q(X), not aux(X).", "right": "p(X) :- q(X).", "ug": UG0},
    {"left": "s. p(X) :- q(X), s.", "right": "p(X) :- q(X).", "ug": UG0},
    # the same public rule over a shared private predicate that the two sides define differently
    {"left": "aux(X) :- q(X), X > 0. p(X) :- aux(X).", "right": "aux(X) :- q(X), X > 1. p(X) :- aux(X).", "ug": UG0},
    {"left": "s :- q(1). p(X) :- q(X), not s. :- s, q(2).", "right": "s :- q(0). p(X) :- q(X), not s. :- s, q(2).", "ug": UG0},
    # placeholders of sort symbol
    {"left": "p(X) :- q(X), X = c.", "right": "p(X) :- q(X), X = c, c != a.", "ug": UG0 + " input: c -> symbol."},
    {"left": "p(X) :- q(X), X != c.", "right": "p(X) :- q(X), X != c, X != a.", "ug": UG0 + " input: c -> symbol."},
    {"spec": "spec: forall X (p(X) <-> q(X) and c$s = a).", "right": "p(X) :- q(X), c = a.", "ug": UG0 + " input: c -> symbol."},
    # equivalences in negative positions
    {"spec": "spec: forall X ((p(X) <-> q(X)) -> q(X)).", "right": "p(X) :- q(X + 1).", "ug": UG0},
    {"spec": "spec: (a <-> b) -> c.", "right": "c :- a, b. c :- not a, not b.", "ug": "input: a/0. input: b/0. output: c/0."},
    {"spec": "spec: forall X (not (p(X) <-> q(X)) or q(X)).", "right": "p(X) :- q(X + 1).", "ug": UG0},
    {"spec": "spec: forall X ((p(X) <-> q(X)) -> (q(X) <-> p(X))). spec: forall X (((p(X) <-> q(X)) and q(X)) -> p(X)).", "right": "p(X) :- q(X - 1).", "ug": UG0},
    {"spec": "spec: (p(1) <-> q(1)) -> p(2).", "right": "p(2) :- p(1), q(1). p(2) :- not p(1), not q(1). p(1) :- q(2).", "ug": UG0},
    {"spec": "spec: not (p(0) <-> q(0)). spec: forall X (p(X) -> q(X) or X = 0).", "right": "p(0) :- not q(0). p(X) :- q(X), X != 0.", "ug": UG0},
    {"spec": "spec: ((p(0) <-> q(0)) <-> p(1)).", "right": "p(0) :- q(0). p(1) :- q(0). p(1) :- not q(0).", "ug": UG0},
    # a placeholder that occurs only below a unary minus
    {"spec": "spec: forall X (p(X) <-> q(X) and X > -n$i).", "right": "p(X) :- q(X), X > 0 - n.", "ug": UG0 + " input: n -> integer."},
    {"left": "p(X) :- q(X).", "right": "p(X) :- q(X), X = X.", "ug": UG0 + " input: n -> integer. assumption: forall X (q(X) -> X > -n$i)."},
    # specification formulas written the way anthem prints the (simplified) completed definitions of the program, annotated with a direction
    {"spec": "spec(backward): forall V1 (p(V1) <-> q(V1)).", "right": "p(X) :- q(X).", "ug": UG0},
    {"spec": "spec(forward): forall V1 (p(V1) <-> q(V1)).", "right": "p(X) :- q(X).", "ug": UG0},
    {"spec": "spec(backward): forall V1 (p(V1) <-> q(V1)). spec(forward): forall X (q(X) -> p(X)).", "right": "p(X) :- q(X).", "ug": UG0},
    {"spec": "assumption(backward): forall V1 (p(V1) <-> q(V1) and V1 > 0). spec: forall X (p(X) -> q(X)).", "right": "p(X) :- q(X), X > 0.", "ug": UG0},
]


def ext_flagsets(direction="universal"):
    out = []
    for seq, simp, eqb in itertools.product([False, True], repeat=3):
        out.append({"mu": False, "sequential": seq, "simplify": simp, "eqbreak": eqb, "direction": direction, "bypass": False})
    return out


def ext_cases(ctx, n_q, n_t):
    cases = []
    for i, h in enumerate(EXT_HAND):
        c = dict(h)
        c.update({"id": f"h{i}", "task": "external"})
        cases.append(c)
    cases += V.tlc_generate(ctx, "ext", n_q if ctx.quick() else n_t, 1)
    base = os.path.join(V.REPO, "res", "examples", "external_equivalence")
    for d in sorted(os.listdir(base)):
        fs = sorted(os.listdir(os.path.join(base, d)))
        lps = [f for f in fs if f.endswith(".lp")]
        ugs = [f for f in fs if f.endswith(".ug")]
        specs = [f for f in fs if f.endswith(".spec")]

        def rd(fn):
            return V.strip_comments(open(os.path.join(base, d, fn)).read())
        if ugs and specs and lps:
            cases.append({"id": f"ex-{d}", "task": "external", "spec": rd(specs[0]), "right": rd(lps[0]), "ug": rd(ugs[0])})
        elif ugs and len(lps) >= 2:
            cases.append({"id": f"ex-{d}", "task": "external", "left": rd(lps[0]), "right": rd(lps[1]), "ug": rd(ugs[0])})
    allfs = ext_flagsets()
    for i, c in enumerate(cases):
        if ctx.quick():
            pick = {0, 7, (i * 3 + ctx.seed) % 8, (i * 5 + 2) % 8}
            c["flagsets"] = [allfs[k] for k in sorted(pick)]
        else:
            c["flagsets"] = list(allfs)
        if i % 4 == 1:
            c["flagsets"] = c["flagsets"] + [dict(allfs[7], direction="forward"), dict(allfs[4], direction="backward")]
    return cases


def ext_records(ctx, n_q, n_t, cases=None):
    cases = cases if cases is not None else ext_cases(ctx, n_q, n_t)
    recs = V.run_harness(ctx, "problems", cases)
    usable, skipped, panics, refused = [], {}, [], 0
    seen = set()
    for r in recs:
        if r["kind"] != "external" or r["text"] in seen:
            continue
        seen.add(r["text"])
        for fm in r["families"]:
            if "panic" in fm:
                panics.append({"text": r["text"], "panic": fm["panic"], "flags": fm["flags"]})
        if not any("problems" in fm for fm in r["families"]):
            refused += 1
            continue
        pub = {(p["p"], p["n"]) for p in r["inputs"] + r["outputs"]}
        lpriv = {(p["p"], p["n"]) for p in r["lpreds"]} - pub
        rpriv = {(p["p"], p["n"]) for p in r["rpreds"]} - pub
        names = {p for p, _ in pub | lpriv | rpriv}
        if any((p + "_p") in names for p, _ in lpriv & rpriv):
            skipped["renaming-would-clash"] = skipped.get("renaming-would-clash", 0) + 1
            continue
        if any(n > 2 for _, n in pub | lpriv | rpriv) or sum(3 ** n for _, n in pub | lpriv | rpriv) > 40:
            skipped["vocabulary-too-large"] = skipped.get("vocabulary-too-large", 0) + 1
            continue
        trees = [f["f"] for fm in r["families"] if "problems" in fm for p in fm["problems"] for f in p["formulas"]]
        rules = (r["left"] if r["left_is_program"] else []) + r["right"]
        nv = max([len(x["vars"]) for x in rules] + [0])
        biggest = max([C.qdepth(t) for t in trees] + [0])
        why = V.add_params(ctx, r, len(usable), ["left", "right", "ug"], nvars=max(nv, biggest), size=max([V.tree_size(t) for t in trees] + [1]),
                           budget=2000000 if ctx.quick() else 30000000)
        if why is None:
            r["pp"].update({"lo": -1, "hi": 1, "ext": False, "nbs": 1})
            usable.append(r)
        else:
            skipped[why] = skipped.get(why, 0) + 1
    return cases, usable, skipped, panics, refused


def run_C02(ctx):
    V.build()
    cases, usable, skipped, panics, refused = ext_records(ctx, 90, 110)
    verdicts = V.tlc_validate(ctx, "TraceSem", usable, {"VERIF_CLCAP": 9 if ctx.quick() else 10})
    stats, violations = V.collect(verdicts, usable, "C02")
    for v in violations:
        v["detail"] += f"  [flags: {v['verdict'].get('note')}]"
    for p in panics:
        violations.append({"check": "C02.panic", "text": p["text"], "detail": f"anthem panicked under {p['flags']}: {p['panic']}", "record": p})
    # reference grammar (spec/Syntax.tla): what a specification / user-guide / outline TEXT means as a tree
    prec = V.tlc_generate(ctx, "precfol", 160 if ctx.quick() else 472, 1, {"GEN_STRIDE": 3 if ctx.quick() else 1})
    exp = {c["id"]: c["exp"] for c in prec}
    grecs = V.run_harness(ctx, "gamma", [{"id": c["id"], "f": c["f"]} for c in prec], tag="-prec")
    gok = []
    for r in grecs:
        if r["kind"] == "gamma":
            gok.append({"id": r["id"], "kind": "gamma", "text": r["text"], "f": r["f"], "exp": exp[r["id"]]})
        else:
            violations.append({"check": "C02.text_parses_to_reference_tree", "text": r.get("text", ""),
                               "detail": "a formula printed by the reference grammar is not accepted: " + str(r.get("error", r.get("panic", "")))[:200], "record": r})
    ents = V.tlc_generate(ctx, "precentry", 58, 1, {"GEN_STRIDE": 1})
    eexp = {c["id"]: c["exp"] for c in ents}
    for r in V.run_harness(ctx, "roundtrip", [{"id": c["id"], "as": c["as"], "text": c["text"]} for c in ents], tag="-entry"):
        if r["kind"] == "roundtrip":
            gok.append({"id": r["id"], "kind": "roundtrip", "text": r["text"], "stage": r["stage"], "tree1": r.get("tree1", []), "exp": eexp[r["id"]]})
        else:
            violations.append({"check": "C02.text_parses_to_reference_tree", "text": r.get("text", ""), "detail": "harness: " + str(r)[:200], "record": r})
    gverd = V.tlc_validate(ctx, "TraceSem", gok, {}, workers=4)
    gstats, gviol = V.collect(gverd, gok, "C02.text")
    violations += gviol
    coverage = {
        "reference_grammar_texts": len(gok),
        "programs": len(usable), "cases_generated": len(cases), "tasks_refused_by_anthem": refused, "families_checked": stats["verdicts"],
        "disagreements_checked": stats["verdicts"] - stats["skip"], "evaluations": stats["evaluations"], "unknown_evaluations": stats["unknown"],
        "distinct_nontrivial": len(stats["nontrivial_ids"]), "vacuous_or_constant": stats["vacuous"], "skipped": skipped,
        "rule": "external-equivalence tasks derived by TLC (spec/Gen.tla mode ext: layered programs over input q/1, output p/1, output-or-private "
                "r/1, private aux/1 on both sides, placeholder n; program-vs-program and specification-vs-program with direction annotations; "
                "user-guide assumptions) + hand-written tasks + res/examples/external_equivalence; x decomposition x simplify x eq-break (quick: "
                "4 of 8 families) and forward/backward-only runs; for EVERY classical interpretation of all predicates (both private copies) over "
                "the base atoms and every placeholder value: a forward problem is refuted iff the oracle of spec/TraceSem.tla (stable models by "
                "brute force, private parts by support) says the interpretation witnesses a behavioural difference; non-trivial = some "
                "interpretation refutes and some does not",
        "samples": C.sample_records(usable, [v for v in verdicts if v["check"].startswith("C02")][:40]), "exhaustive": False,
    }
    return V.finish(ctx, "translation_validation", coverage, violations, C.TV_ASSUME + [
        "tasks without proof outline (outlines are C13's subject); vocabularies free of the clashes anthem resolves by renaming symbols (C09)",
        "the documented `_p` suffix of clashing program-private predicates is used to read the right side of an interpretation"])


# ------------------------------------------------------------------------------------------------ C19
# tasks judged ONLY for agreement of the families (their vocabulary has the clash between a symbol and a 0-ary predicate that anthem
# resolves by renaming - C02's oracle leaves such vocabularies to C09 / C12): whatever name a symbol gets, it must get it in every family
C19_HAND = [
    {"left": "s :- r. q.", "right": "s :- r, a. s :- r, not a. q :- a < a1.", "ug": "input: r/0. input: a/0. output: s/0. output: q/0."},
    {"left": "s :- r. q :- b1 < b.", "right": "s :- r, not not b. s :- r, not b. q :- b1 < b, not r. q :- b1 < b, r.", "ug": "input: r/0. input: b/0. output: s/0. output: q/0."},
    {"left": "p(X) :- q(X), X != a.", "right": "p(X) :- q(X), X != a, a. p(X) :- q(X), X != a, not a.", "ug": "input: q/1. input: a/0. output: p/1."},
]


CLI_TASKS = [
    {"task": "strong", "left": "p(X) :- q(X), not r(X). s :- p(1).", "right": "p(X) :- q(X), not r(X). s :- p(1), q(1).\n"},
    {"task": "external", "left": "p(X) :- q(X), X > n.", "right": "p(X) :- q(X), X >= n + 1.", "ug": "input: q/1. output: p/1. input: n -> integer."},
    {"task": "external", "spec": "spec(forward): forall X (p(X) -> q(X)). spec(backward): forall X (q(X) and X > 0 -> p(X)). spec: forall X (p(X) -> X > 0).",
     "right": "p(X) :- q(X), X > 0. p(X) :- q(X), r(X). r(X) :- r(X), q(X).", "ug": "input: q/1. output: p/1."},
]


def cli_binding(ctx):
    """The families are computed through the verification hook with an explicit flag record; the command line must select exactly those
    families for the corresponding EXPLICIT options: same problem names, same problem texts."""
    import os
    import shutil
    import subprocess
    out, nruns = [], 0
    work = ctx.path("clibind")
    os.makedirs(work, exist_ok=True)
    for ti, t in enumerate(CLI_TASKS):
        ext = t["task"] == "external"
        fsets = []
        for seq, simp, eqb in itertools.product([False, True], repeat=3):
            for direction in ("universal", "forward", "backward"):
                if ext:
                    fsets.append({"mu": False, "sequential": seq, "simplify": simp, "eqbreak": eqb, "direction": direction, "bypass": ti == 2})
                else:
                    fsets += [{"mu": mu, "sequential": seq, "simplify": simp, "eqbreak": eqb, "direction": direction, "bypass": False} for mu in (False, True)]
        if ctx.quick():
            fsets = fsets[:: 3] + fsets[1:: 7]
        case = dict(t, id=f"cli{ti}", flagsets=fsets, with_text=True)
        recs = [r for r in V.run_harness(ctx, "problems", [case], tag=f"-cli{ti}") if r["kind"] in ("strong", "external")]
        if not recs:
            raise V.ToolError(f"command-line binding: task {ti} is rejected by the harness")
        d = os.path.join(work, f"t{ti}")
        os.makedirs(d, exist_ok=True)
        paths = []
        for key, fn in (("spec", "s.spec"), ("left", "a.lp"), ("right", "b.lp"), ("ug", "u.ug")):
            if key in t:
                with open(os.path.join(d, fn), "w") as fh:
                    fh.write(t[key] + "\n")
                paths.append(os.path.join(d, fn))
        for fm in recs[0]["families"]:
            fl = fm["flags"]
            save = os.path.join(d, "save")
            shutil.rmtree(save, ignore_errors=True)
            os.makedirs(save)
            args = ["verify", "--equivalence", t["task"], "--no-proof-search", "--save-problems", save,
                    "--decomposition", "sequential" if fl["sequential"] else "independent", "--direction", fl["direction"],
                    "--formula-representation", "mu" if fl["mu"] else "tau-star"]
            args += ([] if fl["simplify"] else ["--no-simplify"]) + ([] if fl["eqbreak"] else ["--no-eq-break"]) + (["--bypass-tightness"] if fl["bypass"] else [])
            r = subprocess.run([V.ANTHEM] + args + paths, stdout=subprocess.PIPE, stderr=subprocess.PIPE, text=True, timeout=120)
            nruns += 1
            files = {fn[:-2]: open(os.path.join(save, fn)).read() for fn in os.listdir(save) if fn.endswith(".p")}
            lib = {p["name"]: p["text"] for p in fm.get("problems", [])}
            refused_lib = "problems" not in fm
            if refused_lib != (r.returncode != 0) or files != lib:
                diff = sorted(set(files) ^ set(lib)) or [n for n in sorted(lib) if files.get(n) != lib[n]][:3]
                out.append({"check": "C19.command_line_options_select_the_family", "text": " ".join(args[:3] + args[6:]) + " | " + recs[0]["text"],
                            "detail": f"the command line (exit {r.returncode}) wrote {len(files)} problems, the library family for {fl} has {len(lib)} "
                                      f"({'refused' if refused_lib else 'accepted'}); differing: {diff}; stderr {r.stderr[-200:]!r}",
                            "record": {"task": t, "flags": fl, "argv": args}})
    shutil.rmtree(work, ignore_errors=True)
    return out, nruns


def run_C19(ctx):
    V.build()
    q = ctx.quick()
    # design level: independent / sequential decomposition and equivalence breaking are refuted by the same assignments (Decompose.tla)
    _, mc = V.run_tlc(ctx, "Decompose", "Decompose.cfg", {}, workers=2, timeout=600, xss="64m")
    import re as _re
    mm = _re.search(r"(\d+) states generated, (\d+) distinct states found", mc)
    if not mm:
        raise V.ToolError("design check Decompose.tla failed")
    # every flag combination for every task (the quick tiers of C02/C03 use subsets)
    orig_quick = ctx.tier
    s_cases, s_usable, s_skipped, s_panics = strong_records(ctx, 45, 45)
    e_cases, e_usable, e_skipped, e_panics, refused = ext_records(ctx, 45, 50)
    hc = [dict(h, id=f"c19h{i}", task="external", flagsets=ext_flagsets() + ext_flagsets("forward")) for i, h in enumerate(C19_HAND)]
    _, h_usable, _, h_panics, _ = ext_records(ctx, 0, 0, cases=hc)
    e_panics = e_panics + h_panics
    if q:
        # re-run the harness with the full families for the usable cases
        allS, allE = flagsets(), ext_flagsets()
        ids = {r["id"] for r in s_usable}
        sc = [dict(c, flagsets=allS) for c in s_cases if c["id"] in ids][:14]
        ide = {r["id"] for r in e_usable}
        # hand-written tasks whose families are most likely to differ first: equivalences that are not plain definitions (negative
        # positions, one-sided prefix variables, existential prefixes) and private predicates without rules
        def flag_sensitive(c):
            txt = c.get("spec", "") + " | " + c.get("left", "") + " | " + c.get("right", "")
            return ("<->" in c.get("spec", "") and not c.get("spec", "").startswith("spec: forall X (p(X) <-> q(X)")) or "aux(X)" in txt and "aux(X) :-" not in txt
        hand = [c for c in e_cases if c["id"] in ide and c["id"].startswith("h")]
        first = sorted([c for c in hand if flag_sensitive(c)], key=lambda c: 0 if "ward)" in c.get("spec", "") else 1)   # direction annotations first
        rest = [c for c in hand if not flag_sensitive(c)]
        ec = [dict(c, flagsets=allE) for c in (first + [c for c in e_cases if c["id"] in ide and not c["id"].startswith("h")][:6] + rest)][:len(first) + 10]
        pp = {r["id"]: r["pp"] for r in s_usable + e_usable}
        recs = V.run_harness(ctx, "problems", sc, tag="-s19") + V.run_harness(ctx, "problems", ec, tag="-e19")
        usable = []
        for r in recs:
            if r["kind"] in ("strong", "external") and r["id"] in pp:
                r["pp"] = pp[r["id"]]
                usable.append(r)
    else:
        usable = s_usable + e_usable
    usable = h_usable + usable
    verdicts = V.tlc_validate(ctx, "TraceSem", usable, {"VERIF_HTCAP": 5 if q else 6, "VERIF_CLCAP": 9 if q else 10})
    stats, violations = V.collect(verdicts, usable, "C19")
    for p in s_panics + e_panics:
        violations.append({"check": "C19.panic", "text": p["text"], "detail": f"anthem panicked under {p['flags']}: {p['panic']}", "record": p})
    cviol, ncli = cli_binding(ctx)
    violations += cviol
    nfam = sum(len([f for f in r["families"] if "problems" in f]) for r in usable)
    coverage = {
        "programs": len(usable), "families_compared": nfam, "command_line_runs_compared_with_library_families": ncli, "design_check_states": int(mm.group(2)), "disagreements_checked": stats["verdicts"] - stats["skip"],
        "evaluations": stats["evaluations"], "unknown_evaluations": stats["unknown"], "distinct_nontrivial": len(stats["nontrivial_ids"]),
        "vacuous_or_constant": stats["vacuous"], "skipped": {"strong": s_skipped, "external": e_skipped}, "tasks_refused_by_anthem": refused,
        "rule": "the C03 and C02 tasks, each under ALL combinations of --no-simplify x --no-eq-break x --decomposition (and tau-star/mu for strong "
                "equivalence); for every interpretation of the enumeration of C03 / C02 the predicate 'some problem of the direction is refuted' "
                "must have the same definite value in every family (no reference semantics involved); non-trivial = refuted by some "
                "interpretation and not by another",
        "samples": C.sample_records(usable, [v for v in verdicts if v["check"].startswith("C19")][:20]), "exhaustive": False,
    }
    return V.finish(ctx, "translation_validation", coverage, violations, C.TV_ASSUME)
