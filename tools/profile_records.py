#!/usr/bin/env python3
"""Developer aid: time each trace record of a validate-*.ndjson file with a single TLC worker."""
import sys, json, time, subprocess, os
tr, prop = sys.argv[1], sys.argv[2]
n = sum(1 for _ in open(tr))
recs = [json.loads(l) for l in open(tr)]
env = dict(os.environ, VERIF_TRACE=tr, VERIF_LO='1', VERIF_HI=str(n), VERIF_SEED='1', VERIF_PROP=prop,
           VERIF_HTCAP=os.environ.get('VERIF_HTCAP', '6'), VERIF_CLCAP=os.environ.get('VERIF_CLCAP', '10'), JAVA_TOOL_OPTIONS='-Xss512m')
p = subprocess.Popen(['tlc', '-workers', '1', '-metadir', '/verif/.work/prof-meta', '-cleanup', '-noGenerateSpecTE', '-config',
                      'TraceSem.cfg', 'TraceSem.tla'], cwd='/verif/spec', env=env, stdout=subprocess.PIPE, text=True)
t = time.time(); rows = {}
by = {r['id']: r for r in recs}
for line in p.stdout:
    if line.startswith('"{'):
        v = json.loads(json.loads(line)); now = time.time()
        rows[v['id']] = rows.get(v['id'], 0) + now - t; t = now
rs = sorted(rows.items(), key=lambda x: -x[1])
print(len(recs), 'records', round(sum(rows.values()), 1), 's')
for i, d in rs[:int(sys.argv[3]) if len(sys.argv) > 3 else 20]:
    print('%.2f %s %s' % (d, i, by[i].get('text', '')[:150]))
