#!/bin/sh
# run_seeded.sh <seeded-dir-name> <prop> [tier]: apply a seeded change to /repo, run the check, undo the change.
D=/verif/seeded/$1; P=$2; T=${3:-quick}
cd /repo && git checkout -q -- . && git apply $D/patch.diff || { echo "patch does not apply"; exit 3; }
cd /verif && ./check $P --tier $T > /verif/.work/seeded-$1-$P.out 2>&1; RC=$?
cd /repo && git checkout -q -- .
echo "$1 $P tier=$T exit=$RC violations=$(grep -c '^VIOLATION' /verif/.work/seeded-$1-$P.out)"
