"""Stage discipline of `anthem verify` (spec/Pipeline.tla), part of C11: every scenario of the model (faults x flags, printed by TLC) is
realised on real tasks with the stand-in prover; the observed events are validated against the model by TracePipeline.tla.
Only an obligation that exists although the task was not accepted is a C11 violation; any other rejected run is model drift (logged,
counted, never an alarm)."""
import json
import os
import shutil
import subprocess

import vcheck as V
from vcheck import ToolError, log

STANDIN = os.path.join(os.path.dirname(os.path.abspath(__file__)), "standin_vampire.py")
THEOREM = "JSBTWlMgc3RhdHVzIFRoZW9yZW0gZm9yIHgK"   # "% SZS status Theorem for x\n"

# (kind, files, flags, refused variant of one file or None)
PTASKS = [
    ("external", {"a.lp": "p(X) :- q(X), X > n.\n", "b.lp": "p(X) :- q(X), X >= n + 1.\n", "u.ug": "input: n -> integer.\ninput: q/1.\noutput: p/1.\n"}, [],
     ("b.lp", "p(X) :- q(X), r(X).\nr(X) :- p(X).\n")),                                  # not tight (and private recursion)
    ("external", {"s.spec": "spec: forall X (p(X) <-> exists N$i (X = N$i and q(X))).\n", "b.lp": "p(X) :- q(X), X = X + 0.\n", "u.ug": "input: q/1.\noutput: p/1.\n"},
     ["--direction", "backward"], ("u.ug", "input: q/1.\noutput: p/1.\noutput: q/1.\n")),   # q is input and output
    ("external", {"a.lp": "p(X) :- q(X), not r(X).\nr(X) :- q(X), X < 0.\n", "b.lp": "p(X) :- q(X), X >= 0.\n", "u.ug": "input: q/1.\noutput: p/1.\n"},
     ["--decomposition", "sequential"], ("b.lp", "p(X) :- q(X), X >= 0.\nq(X) :- p(X).\n")),  # an input predicate in a head
    ("strong", {"a.lp": "p(X) :- q(X).\n", "b.lp": "p(X) :- q(X), not r(X).\n"}, [], None),
    ("strong", {"a.lp": "p(X) :- q(X).\nq(X) :- r(X).\np(X) :- r(X).\ns(X) :- p(X).\n", "b.lp": "p(X) :- q(X).\nq(X) :- r(X).\ns(X) :- q(X).\ns(X) :- p(X).\n"},
     ["--decomposition", "sequential"], None),
]


def scenarios(ctx):
    vals, out = V.run_tlc(ctx, "TracePipeline", "TracePipeline.cfg", {"VERIF_MODE": "gen", "VERIF_TRACE": "/dev/null"}, workers=1, timeout=300, xss="64m")
    return vals


def write_files(d, files):
    os.makedirs(d, exist_ok=True)
    for fn, txt in files.items():
        with open(os.path.join(d, fn), "w") as f:
            f.write(txt)


def run_verify(kind, flags, paths, extra, env=None):
    cmd = [V.ANTHEM, "verify", "--equivalence", kind] + flags + extra + paths
    try:
        r = subprocess.run(cmd, env=env, stdout=subprocess.PIPE, stderr=subprocess.PIPE, timeout=120)
        return r.returncode, r.stdout.decode("utf-8", "replace"), r.stderr.decode("utf-8", "replace"), cmd
    except subprocess.TimeoutExpired:
        return -9, "", "TIMEOUT", cmd


def pipeline_check(ctx):
    scs = scenarios(ctx)
    work = ctx.path("pipeline")
    shutil.rmtree(work, ignore_errors=True)
    os.makedirs(work)
    bindir = os.path.join(work, "bin")
    os.makedirs(bindir)
    with open(os.path.join(bindir, "vampire"), "w") as f:
        f.write(f"#!/bin/sh\nexec python3 {STANDIN} \"$@\"\n")
    os.chmod(os.path.join(bindir, "vampire"), 0o755)
    planf = os.path.join(work, "plan.json")
    json.dump({"*": {"o": "Theorem", "stdout_b64": THEOREM, "delay_ms": 0}}, open(planf, "w"))
    violations, recs, raws = [], [], {}
    tasks = PTASKS if not ctx.quick() else PTASKS[:1] + PTASKS[2:4]
    for ti, (kind, files, flags, refused) in enumerate(tasks):
        base = os.path.join(work, f"t{ti}")
        write_files(base, files)
        save0 = os.path.join(base, "save0")
        os.makedirs(save0)
        names = sorted(files)
        rc, _, err, _ = run_verify(kind, flags, [os.path.join(base, fn) for fn in names], ["--no-proof-search", "--save-problems", save0])
        if rc != 0:
            raise ToolError(f"pipeline task {ti} is not accepted by anthem: {err[-400:]}")
        np_ = len([f for f in os.listdir(save0) if f.endswith(".p")])
        for si, sc in enumerate(scs):
            F = set(sc["fault"])
            if "refuse" in F and refused is None:
                continue
            if ctx.quick() and (si + ti) % 2 and F & {"usage", "sort", "load", "refuse"}:
                continue
            rid = f"t{ti}s{si}"
            d = os.path.join(work, rid)
            cur = dict(files)
            if "refuse" in F:
                cur[refused[0]] = refused[1]
            if "load" in F:
                how = (si + ti) % 3
                victim = names[(si // 3) % len(names)]
                if how == 0:
                    cur[victim] = "p(X :- .\n" if victim.endswith(".lp") else "input: -> .\n"
                elif how == 1 and kind == "external":
                    del cur["u.ug"]                      # "no user guide was provided"
                else:
                    cur[names[-1 if kind == "strong" else 0]] = "forall ( .\n"
            write_files(d, cur)
            paths = [os.path.join(d, fn) for fn in sorted(cur)]
            extra = ["--no-timing", "--time-limit", "5", "-n", "2"]
            save = os.path.join(d, "save")
            os.makedirs(save)
            watch = save
            if sc["save"]:
                tgt = os.path.join(d, "nodir", "x") if "savedir" in F else save
                extra += ["--save-problems", tgt]
            if not sc["prove"]:
                extra += ["--no-proof-search"]
            if "sort" in F:
                paths.insert(len(paths) // 2, os.path.join(d, "missing", "none.lp"))
            if "usage" in F:
                extra += ["--no-such-option"]
            logf = os.path.join(d, "standin.log")
            open(logf, "w").close()
            env = {"PATH": bindir + ":/usr/bin:/bin", "STANDIN_LOG": logf, "STANDIN_PLAN": planf, "STANDIN_WATCH": watch, "HOME": d}
            rc, out, err, cmd = run_verify(kind, flags, paths, extra, env)
            standin = [json.loads(x) for x in open(logf) if x.strip()]
            starts = [e for e in standin if e["ev"] == "START"]
            nsaved = len([f for f in os.listdir(save) if f.endswith(".p")])
            verdict = "> Success!" in out or "> Failure!" in out
            ev, have = [], 0
            for e in starts:
                nf = e.get("nfiles", 0)
                ev += [{"e": "save", "nfiles": 0, "code": 0}] * max(0, nf - have)
                have = max(have, nf)
                ev.append({"e": "start", "nfiles": nf, "code": 0})
            ev += [{"e": "save", "nfiles": 0, "code": 0}] * max(0, nsaved - have)
            if verdict:
                ev.append({"e": "verdict", "nfiles": 0, "code": 0})
            ev.append({"e": "exit", "nfiles": 0, "code": rc})
            rec = {"id": rid, "fault": sorted(F), "save": sc["save"], "prove": sc["prove"], "np": np_, "ev": ev}
            recs.append(rec)
            raws[rid] = {"cmd": " ".join(cmd[1:]).replace(work, "."), "files": cur, "exit": rc, "stderr": err[-600:], "stdout_tail": out[-400:],
                         "observed": {"code": rc, "nsaved": nsaved, "nstarted": len(starts), "verdict": verdict, "diag": bool(err.strip())}, "record": rec}
            shutil.rmtree(d, ignore_errors=True)
    vals = V.tlc_validate(ctx, "TracePipeline", recs, {"VERIF_MODE": "check"}, workers=1, timeout=900)
    accepted = {v["id"] for v in vals if v.get("kind") == "accepted"}
    expected = {v["id"]: v["obs"] for v in vals if v.get("kind") == "expected"}
    drift = []
    for r in recs:
        if r["id"] in accepted:
            continue
        raw = raws[r["id"]]
        o = raw["observed"]
        early = set(r["fault"]) & {"usage", "sort", "load", "refuse"}
        if early and (o["nsaved"] > 0 or o["nstarted"] > 0 or o["verdict"]):
            violations.append({"check": "C11.pipeline_no_obligation_before_acceptance", "text": raw["cmd"],
                               "detail": f"faults {sorted(early)}: the task cannot have been accepted, yet {o['nsaved']} problem files were written, "
                                         f"{o['nstarted']} provers started, verdict printed: {o['verdict']} (exit {o['code']})", "record": raw})
        elif "refuse" in r["fault"] and not (set(r["fault"]) & {"usage", "sort", "load"}) and o["code"] == 0:
            violations.append({"check": "C11.pipeline_refusal_expected", "text": raw["cmd"],
                               "detail": "a task that violates a listed applicability condition ran to completion with exit 0", "record": raw})
        else:
            drift.append({"id": r["id"], "cmd": raw["cmd"], "observed": o, "expected": expected.get(r["id"])})
    for dft in drift[:5]:
        log(f"[{ctx.prop}] pipeline drift (no alarm): {json.dumps(dft)[:400]}")
    stats = {"pipeline_scenarios": len(scs), "pipeline_runs": len(recs), "pipeline_accepted": len(accepted & {r['id'] for r in recs}),
             "pipeline_drift_not_alarmed": len(drift), "pipeline_runs_with_early_fault": len([r for r in recs if set(r["fault"]) & {"usage", "sort", "load", "refuse"}]),
             "pipeline_prover_starts_observed": sum(raws[r["id"]]["observed"]["nstarted"] for r in recs)}
    shutil.rmtree(work, ignore_errors=True)
    return stats, violations


def tlaps_proof(ctx):
    """the stage discipline (NoObligationBeforeAcceptance, FilesBeforeProvers, VerdictAfterAllStarted) is PROVED for any number of problems"""
    import re
    d = ctx.path("tlaps-pipeline")
    os.makedirs(d, exist_ok=True)
    for fn in ("Pipeline.tla", "PipelineProofs.tla"):
        shutil.copy(os.path.join(V.SPEC, fn), d)
    r = subprocess.run(["timeout", "1500", "tlapm", "--threads", "8", "--cleanfp", "PipelineProofs.tla"], cwd=d, stdout=subprocess.PIPE, stderr=subprocess.STDOUT, text=True)
    m = re.search(r"All (\d+) obligations proved", r.stdout)
    shutil.rmtree(d, ignore_errors=True)
    if not m:
        raise ToolError("TLAPS proof PipelineProofs.tla failed:\n" + r.stdout[-1500:])
    log(f"[C11] TLAPS: all {m.group(1)} obligations of PipelineProofs.tla proved (stage discipline for any number of problems)")
    return int(m.group(1))
