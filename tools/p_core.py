#!/usr/bin/env python3
"""Checks built on the semantic trace specification TraceSem (C01 C05 C07 C08 C17) and helpers shared by the other check modules."""
import argparse
import json
import os
import sys

sys.path.insert(0, os.path.dirname(os.path.abspath(__file__)))
import vcheck as V  # noqa: E402
from vcheck import Ctx, ToolError, log  # noqa: E402

TV_ASSUME = [
    "TLC evaluates the TLA+ reference semantics (spec/Values, PropHT, Sigma0, MiniGringo) correctly",
    "interpretations are finite: atom arguments range over a small base (integers lo..hi, one named symbolic constant, "
    "optionally #inf/#sup); quantifiers range over a concrete window plus abstract far elements, three-valued and sound "
    "for the infinite domain; unknown (U) evaluations never raise an alarm and are counted",
    "division/modulo follow anthem's documented semantics D1 (positive divisors only)",
    "the harness serializers are mechanical (one constructor per JSON record)",
]


def sample_records(records, verdicts, k=4):
    out = []
    vb = {}
    for v in verdicts:
        vb.setdefault(v["id"], []).append({x: v[x] for x in ("check", "v", "n", "unk", "t", "f", "ident") if x in v})
    for r in records[:k]:
        out.append({"id": r["id"], "input": r.get("text", ""), "verdicts": vb.get(r["id"], [])})
    return out


# =================================================================================== C01 / C08
def rule_records(ctx, nprog, depth, thin=1):
    # systematic families (exhaustive in thorough - every `thin`-th for the costlier C08 -, strided sample in quick) + seeded random programs
    q = ctx.quick()
    cases = V.tlc_generate(ctx, "sysrule", 200 if q else 1476 // (1 if thin < 8 else 2), depth, {"GEN_STRIDE": 181 if q else (1 if thin < 8 else 2)})
    if q:  # the small categories (double unary minus, unary minus over an operation) sit at the low indices
        cases += V.tlc_generate(ctx, "sysnest", 24, depth, {"GEN_STRIDE": 1, "VERIF_SEED": 0})
    cases += V.tlc_generate(ctx, "sysnest", 110 if q else 6003 // thin, depth, {"GEN_STRIDE": 1009 if q else thin})
    cases += V.tlc_generate(ctx, "sysnames", 110 if q else 3200 // thin, depth, {"GEN_STRIDE": 1013 if q else thin})
    cases += V.tlc_generate(ctx, "program", nprog, depth)
    for i, (name, text) in enumerate(V.repo_programs()):
        cases.append({"id": f"repo{i}", "prog": V.strip_comments(text), "origin": name})
    cases += [{"id": f"t{i}", "prog": p} for i, p in enumerate(TABLE_PROGRAMS)]
    # reference grammar (spec/Syntax.tla): minimally parenthesised terms together with the tree they mean
    prec = V.tlc_generate(ctx, "precasp", 220 if q else 864, depth, {"GEN_STRIDE": 47 if q else 1})
    exp = {c["id"]: c["exp"] for c in prec}
    cases += [{"id": c["id"], "prog": c["prog"]} for c in prec]
    prul = V.tlc_generate(ctx, "precrule", 180 if q else 1152, depth, {"GEN_STRIDE": 53 if q else 1})
    exprule = {c["id"]: c["exprule"] for c in prul}
    cases += [{"id": c["id"], "prog": c["prog"]} for c in prul]
    recs = V.run_harness(ctx, "translate", cases)
    for r in recs:
        base = r["id"].rsplit(".", 1)[0]
        if base in exp and r["kind"] == "rule":
            r["exp"] = exp[base]
        elif base in exprule and r["kind"] == "rule":
            r["exprule"] = exprule[base]
        elif (base in exp or base in exprule) and r["kind"] in ("reject", "panic"):
            r["reference_text"] = True
    return cases, recs


TABLE_PROGRAMS = [
    # shapes from the unit-test tables of tau_star.rs / natural.rs / mu.rs, and the fresh-name traps
    "p(X+1) :- q(X).", "p(X/2) :- q(X).", "{p(X)} :- q(X), not r(X).", ":- p(X), X > 0.", "p(1..2).",
    "p(X) :- X = 0..1.", "p(X*X) :- q(X), X != 1.", "p(X \\ 2) :- q(X).", "p(I+J) :- q(I), q(J).",
    "p(Z) :- q(Z1), Z = Z1 + 1.", "p(V1) :- q(V1), not q(V).", "p(K) :- K = I..J, q(I), q(J).",
    "p(Q/R) :- q(Q), q(R).", "p(Q \\ R) :- q(Q), r(R).", "{p(I)} :- q(I), not not p(I).", "p(X,Y) :- q(X), q(Y), X < Y.",
    "p(-X) :- q(X).", "p(-(1..2)).", "p((1..2)*2).", "p(1..X) :- q(X).", "p(X..2) :- q(X).", "s :- not not s.",
    "s :- q(X), not p(X).", ":- s, not q(1).", "p(a). p(1). q(X) :- p(X), X > 0.", "p(X) :- q(X), X < #sup, X > #inf.",
    "p(N0) :- q(N0), N0 = 1..2.", "p(1..2, N0) :- q(N0).", "p(X) :- q(X), X != a.", "p(2/0).", "p(1/(X-1)) :- q(X).",
    "p(X) :- q(X), 1 = X \\ 2.", "{p(1..2)}.", "{p(X+1)} :- q(X).", "p(X+(1..2)) :- q(X).", "p(X) :- q((X+1)*2).",
    "p(X) :- X = -1..1, not q(X).", "p(5 \\ -2).", "p(-3/2).", "p(-3 \\ 2).",
    # intervals with extreme or symbolic bounds; rule variables named like the fresh variables of the natural translation
    "p(#inf..3).", "q(X) :- p(X), X = 1..#sup.", "p((1+#inf)..3).", "p(a..3).", "p(1..a).", "p(-(#sup)..1).", "{p(#inf..1)}.", "p(X) :- q(X), X = #inf..#sup.",
    "p(1..N0) :- q(N0).", "p(N1..3, 1..5) :- q(N1).", "{p(1..N0)} :- q(N0).", "p(N0..N0) :- q(N0).", "p(1..2, N0..N1) :- q(N0), q(N1).", "p(N0, 1..N0) :- q(N0).",
    "p(1..2, 3..4, N1) :- q(N1).",
    # the head atom repeated in the body (under every sign), with multi-valued / partial terms in it
    "q(1..2) :- not not q(1..2).", "q(1..N, X) :- p(N, X), not not q(1..N, X).", "p(X + 1) :- q(X), not not p(X + 1).", "p(X / 2) :- q(X), not not p(X / 2).",
    "{q(1..2)} :- not q(1..2).", "q(1..2) :- q(1..2).", "q(0..1, 0..1) :- not not q(0..1, 0..1).", "p(X) :- q(X), not not p(X).",
    # global head variables V1.. against rule variables named V<n> in OTHER rules; the same multi-valued term in two positions
    "p(X) :- t(X, V2). r(V1) :- q(V1).", "p(X, Y) :- t(X, V3), t(Y, V2). r(V1) :- q(V1).", "r(V1) :- q(V1). p(X) :- t(X, V2).", "p(V2) :- q(V2). t(X, Y) :- q(X), q(Y), X != V1, q(V1).",
    "s :- t(1..2, 1..2).", "s :- not t(X..Y, X..Y), q(X), q(Y).", "s :- t(X/2, X/2), q(X).", "{t(0..1, 0..1)}.", "t(X..X+1, X..X+1) :- q(X).", "s :- not not t(0..1, 0..1).", "{p(N0_0..N0)} :- q(N0), q(N0_0).", "p(1..X) :- q(X), not p(X..2).", "p(X..Y) :- q(X), q(Y), X < Y.",
]


def check_rules(ctx, prefix, nprog_q, nprog_t, thin=1):
    V.build()
    nprog = nprog_q if ctx.quick() else nprog_t
    cases, recs = rule_records(ctx, nprog, 2, thin)
    rules = [r for r in recs if r["kind"] == "rule"]
    panics = [r for r in recs if r["kind"] == "panic"]
    rejected = [r for r in recs if r["kind"] == "reject"]
    usable, skipped = [], {}
    seen = set()
    for r in rules:
        key = json.dumps(r["rule"], sort_keys=True) + (r.get("text", "") if ("exp" in r or "exprule" in r) else "")   # spellings of one tree are all judged
        if key in seen:
            continue
        seen.add(key)
        why = V.add_params(ctx, r, len(usable), ["rule", "tau", "mu", "nat"], nvars=len(r["rule"]["vars"]),
                           size=V.tree_size(r["rule"]))
        if why is None:
            usable.append(r)
        else:
            skipped[why] = skipped.get(why, 0) + 1
    verdicts = V.tlc_validate(ctx, "TraceSem", usable, {})
    stats, violations = V.collect(verdicts, usable, prefix)
    for p in panics:
        violations.append({"check": prefix + ".panic", "text": p["text"], "detail": "anthem panicked: " + p["panic"], "record": p})
    if prefix == "C01":
        for r in rejected:
            if r.get("reference_text"):
                violations.append({"check": "C01.text_parses_to_reference_tree", "text": r.get("text", ""),
                                   "detail": "a term printed by the reference grammar is rejected by the parser: " + str(r.get("error", ""))[:200], "record": r})
    if prefix == "C08":
        # mu never fails: every parsed program must have produced rule records (a panic is reported above)
        pass
    coverage = {
        "programs": len(cases) - len(rejected),
        "rules_validated": len(usable),
        "disagreements_checked": stats["verdicts"] - stats["skip"],
        "evaluations": stats["evaluations"],
        "identical_normal_forms": stats["identical"],
        "unknown_evaluations": stats["unknown"],
        "distinct_nontrivial": len(stats["nontrivial_ids"]),
        "vacuous_or_constant": stats["vacuous"],
        "skipped": skipped,
        "rejected_by_parser": len(rejected),
        "rule": "programs derived by TLC from the mini-gringo grammar (spec/Gen.tla, depth-bounded, adversarial variable pool) "
                "+ all res/examples programs + test-table shapes; distinct by rule tree; non-trivial = the reference grounding "
                "mentions atoms and was both true and false on the explored HT interpretations (or groundings identical)",
        "samples": sample_records(usable, [v for v in verdicts if v["check"].startswith(prefix)]),
        "exhaustive": False,
    }
    return V.finish(ctx, "translation_validation", coverage, violations, TV_ASSUME)


def run_C01(ctx):
    return check_rules(ctx, "C01", 50, 250, thin=16)


def run_C08(ctx):
    return check_rules(ctx, "C08", 50, 150, thin=24)


# =================================================================================== formulas
def free_vars(t, bound=frozenset()):
    """free variables / function constants of a sigma_0 tree (only used to predict cost)."""
    out = set()
    if isinstance(t, dict):
        k = t.get("k")
        if k == "var" and "s" in t:
            if (t["v"], t["s"]) not in bound:
                out.add((t["v"], t["s"]))
        elif k == "fc":
            out.add((t["c"], "f" + t["s"]))
        elif k in ("forall", "exists"):
            b = bound | {(v["n"], v["s"]) for v in t["vars"]}
            out |= free_vars(t["f"], b)
        else:
            for v in t.values():
                out |= free_vars(v, bound)
    elif isinstance(t, list):
        for v in t:
            out |= free_vars(v, bound)
    return out


def _conjuncts(t):
    if isinstance(t, dict) and t.get("k") == "and":
        return _conjuncts(t["l"]) + _conjuncts(t["r"])
    return [t]


def _defined(v, body, forall):
    """is quantified variable v likely bound by a defining equality (the evaluator then does not enumerate it)?"""
    if forall:
        if not (isinstance(body, dict) and body.get("k") in ("imp", "rimp")):
            return False
        body = body["l"] if body["k"] == "imp" else body["r"]
    for c in _conjuncts(body):
        if isinstance(c, dict) and c.get("k") == "cmp" and len(c["g"]) == 1 and c["g"][0]["r"] == "eq":
            for side in (c["t"], c["g"][0]["t"]):
                if side.get("k") == "var" and side.get("v") == v["n"] and side.get("s") == v["s"]:
                    return True
    return False


def qdepth(t):
    """maximal number of ENUMERATED quantified variables along a path"""
    if isinstance(t, dict):
        inner = max([qdepth(v) for v in t.values()] + [0])
        if t.get("k") in ("forall", "exists"):
            return inner + sum(0 if _defined(v, t["f"], t["k"] == "forall") else 1 for v in t["vars"])
        return inner
    if isinstance(t, list):
        return max([qdepth(v) for v in t] + [0])
    return 0


def formula_cost_params(ctx, rec, idx, trees, extra_free=0):
    fv = set()
    size = 0
    depth = 0
    for t in trees:
        fv |= free_vars(t)
        size += V.tree_size(t)
        depth = max(depth, qdepth(t))
    return V.add_params(ctx, rec, idx, [], nvars=len(fv) + extra_free + depth, size=size,
                        budget=12000000 if ctx.quick() else 40000000), len(fv)


def generic_formula_check(ctx, mode, gen_mode, nq, nt, depth_q, depth_t, trees_of, prefix, extra_cases=(), transform=None,
                          rule_text=""):
    V.build()
    cases = V.tlc_generate(ctx, gen_mode, nq if ctx.quick() else nt, depth_q if ctx.quick() else depth_t)
    cases += list(extra_cases)
    recs = V.run_harness(ctx, mode, cases)
    panics = [r for r in recs if r["kind"] == "panic"]
    rejected = [r for r in recs if r["kind"] == "reject"]
    good = [r for r in recs if r["kind"] not in ("panic", "reject", "skip")]
    usable, skipped, seen = [], {}, set()
    for r in good:
        if transform:
            r = transform(r)
            if r is None:
                continue
        key = r.get("text")
        if key in seen:
            continue
        seen.add(key)
        numer = []
        V.numerals([r.get(k) for k in ("f", "g", "out", "term", "outs")], numer)
        if [n for n in numer if abs(n) > 20]:
            skipped["large-numerals"] = skipped.get("large-numerals", 0) + 1
            continue
        why, _ = formula_cost_params(ctx, r, len(usable), trees_of(r))
        if why is None:
            usable.append(r)
        else:
            skipped[why] = skipped.get(why, 0) + 1
    verdicts = V.tlc_validate(ctx, "TraceSem", usable, {})
    stats, violations = V.collect(verdicts, usable, prefix)
    for p in panics:
        violations.append({"check": prefix + ".panic", "text": p["text"], "detail": "anthem panicked: " + p["panic"], "record": p})
    coverage = {
        "programs": len(usable),
        "cases_generated": len(cases),
        "disagreements_checked": stats["verdicts"] - stats["skip"],
        "evaluations": stats["evaluations"],
        "identical_normal_forms": stats["identical"],
        "unknown_evaluations": stats["unknown"],
        "distinct_nontrivial": len(stats["nontrivial_ids"]),
        "vacuous_or_constant": stats["vacuous"],
        "skipped": skipped,
        "rejected_by_parser": len(rejected),
        "rule": rule_text,
        "samples": sample_records(usable, [v for v in verdicts if v["check"].startswith(prefix)]),
        "exhaustive": False,
    }
    return coverage, violations, usable, verdicts


FORMULA_RULE = ("formulas derived by TLC from the sigma_0 grammar (spec/Gen.tla: all connectives, quantifiers over the three "
                "sorts, same name at two sorts, chained comparisons, integer arithmetic) plus hand-written trap shapes; for every "
                "assignment of the free variables over the window and every interpretation over the base; distinct by text; "
                "non-trivial = the reference side was both true and false (or groundings identical and mention atoms)")

GAMMA_EXTRA = [
    "p(X) -> q(X)", "not p(X)", "not not p(X)", "p(X) <- q(X)", "p(X) <-> q(X)", "forall X (p(X) -> hp(X))",
    "exists X (hp(X) and not p(X))", "(p(1) -> q(1)) -> r", "not (p(1) -> q(1))", "forall N$i (p(N$i) or not p(N$i))",
    "(p(a) <-> not q(a)) or r", "not (p(1) <- q(1))", "not not (p(1) <-> q(1))", "(p(1) -> (q(1) -> r)) -> r",
    "exists X$i (X$i > 0 and (p(X$i) -> q(X$i)))", "p(1) and (q(1) or not r)", "#true -> p(1)", "p(1) -> #false",
    "tp(X) -> hp(X)", "hp(1) <-> tp(1)", "forall X Y (t(X, Y) -> t(Y, X))", "not t(1, 2) -> t(2, 1)",
]


def run_C05(ctx):
    extra = [{"id": f"x{i}", "f": f} for i, f in enumerate(GAMMA_EXTRA)]
    cov, viol, _, _ = generic_formula_check(ctx, "gamma", "formula", 260, 1500, 2, 3, lambda r: [r["f"]], "C05", extra,
                                            rule_text=FORMULA_RULE)
    return V.finish(ctx, "translation_validation", cov, viol, TV_ASSUME)


SUBST_EXTRA = [
    ("p(X)", "X", "s"), ("exists X (X = Y)", "Y", "X$i + 3"), ("forall X p(X)", "X", "1"),
    ("X = 5 and exists Y (p(X, Y))", "X", "Y"), ("X = 5 and exists Y (t(X, Y) and p(Y1))", "X", "Y"),
    ("exists Y Y1 (t(X, Y) and p(Y1))", "X", "Y"), ("exists Y (t(X, Y) and exists Y1 (t(Y, Y1)))", "X", "Y"),
    ("forall Y (t(X, Y)) and exists Y (t(Y, X))", "X", "Y"), ("exists Y$i (t(X$i, Y$i))", "X$i", "Y$i + 1"),
    ("exists Y$i (t(X, Y$i) and p(Y))", "X", "Y$i"), ("exists Y (t(X, Y)) and p(X$i)", "X", "Y"),
    ("exists Y Z (t(X, Y) and t(Y, Z))", "X", "Z"), ("exists Y (exists Y1 (t(X, Y) and p(Y1)))", "X", "Y"),
    ("exists Y Y (t(X, Y))", "X", "Y"), ("forall X (p(X) -> exists Y t(X, Y))", "X", "Y"),
    ("exists X$i (t(X, X$i))", "X", "X$i"), ("exists N$i (N$i > I$i and p(N$i + I$i))", "I$i", "N$i * 2"),
    ("exists S$s (t(S$s, X$s))", "X$s", "S$s"), ("exists Y (Y = X) and exists Y1 (t(Y1, X))", "X", "Y"),
    ("exists Y (t(X, Y) and exists Y1 (t(Y1, Y) and exists Y2 (t(Y2, X))))", "X", "Y"),
    # the same name at another sort must stay untouched; sibling binders that differ in a trailing index
    ("t(X$i + 1, X)", "X", "5"), ("t(N$i, N)", "N", "M$i"), ("p(X$s) and q(X)", "X", "a"), ("exists Y (t(X, Y) and p(X$i))", "X", "Y$i + 1"),
    ("forall Y$i Y1$i (t(X$i, Y$i) and p(Y1$i))", "X$i", "Y$i + Y1$i"), ("forall Y$i Y1$i (t(Y$i, Y1$i) or p(X$i))", "X$i", "Y$i + Y1$i"),
    ("exists Y$i Y1$i (Y$i < Y1$i and p(X$i))", "X$i", "Y$i * Y1$i"), ("forall N$i N1$i (q(N$i) and q(N1$i) -> N$i = N1$i or p(X$i))", "X$i", "N$i - N1$i"),
    ("exists Y$i Y1$i (t(Y$i, Y1$i) and p(X$i))", "X$i", "Y$i + Y1$i"), ("exists Y Y1 (t(Y, Y1) and t(X, Y))", "X", "Y1"), ("exists V1 V2 (t(V1, V2) and p(X))", "X", "V1$i + V2$i"),
    # the variable that is replaced is the name a renamed binder would get (it need not occur free at all)
    ("exists Y q(Y)", "Y1", "Y"), ("p(Y1) and exists Y (q(Y))", "Y1", "Y"), ("exists Y (t(Y, Y1))", "Y1", "Y"), ("forall Y (q(Y) -> exists Y1 t(Y, Y1))", "Y1", "Y"),
    ("exists N$i (p(N$i) and N$i > 0)", "N1$i", "N$i + 1"), ("q(X1) or exists X (p(X) and not q(X))", "X1", "X"), ("exists Y Y1 (t(Y, Y1))", "Y2", "Y"),
    ("exists Y (q(Y) and exists Y1 (t(Y, Y1) and p(Y11)))", "Y11", "Y1"),
    # variables below a unary minus: in the term that is substituted, and in the body next to the binder that has to be renamed
    ("exists Y$i (t(X$i, Y$i))", "X$i", "-Y$i"), ("exists Y$i (t(X, Y$i))", "X", "-Y$i"), ("forall Y$i (q(Y$i) -> t(X$i, Y$i))", "X$i", "1 - -Y$i"),
    ("exists Y$i (t(X$i, Y$i) and p(-Y1$i))", "X$i", "Y$i"), ("exists Y$i (t(X$i, Y$i) and q(-(Y1$i + 1)))", "X$i", "Y$i + 1"), ("exists N$i (p(-X$i) and t(N$i, X$i))", "X$i", "-N$i * 2"),
    ("exists Y$i Y1$i Y2$i (t(Y$i, Y1$i) and t(Y1$i, Y2$i) and p(X$i))", "X$i", "Y$i + Y1$i + Y2$i"), ("forall Y Y1 (t(X, Y) and p(Y1))", "X", "Y"),
    ("exists Y Y1 Y2 (t(X, Y) and t(Y1, Y2))", "X", "Y1"), ("forall X$i (p(X$i) -> q(X))", "X", "X$i"), ("p(X$i) and p(X$s) and p(X)", "X$i", "X$i + 1"),
]


def run_C17(ctx):
    extra = [{"id": f"x{i}", "f": f, "var": v, "term": t} for i, (f, v, t) in enumerate(SUBST_EXTRA)]
    cov, viol, _, _ = generic_formula_check(ctx, "subst", "subst", 320, 2500, 2, 3,
                                            lambda r: [r["f"], r["out"], r["term"]], "C17", extra, rule_text=FORMULA_RULE)
    return V.finish(ctx, "translation_validation", cov, viol, TV_ASSUME)


# =================================================================================== C07 / C18
SIMP_EXTRA = [
    "exists X$i (X$i = X$i * X$i and p(X$i) and X$i = X$i * X$i)",
    "exists Z (exists I$i Z (I$i = Z and p(Z)) and q(Z))",
    "exists X$g (X$g = 1 and p(X$g))", "exists X$i (X$i = X$i + 1 and p(X$i))", "exists X$s (X$s = a and p(X$s))",
    "exists X Y (X = Y and p(X, Y) and X = Y)", "exists X Y (X = 1 and Y = 1 and t(X, Y))",
    "exists X$i Y (X$i = 1 and Y = 1 and t(X$i, Y))", "exists X Y$i (X = N$i and Y$i = N$i and t(X, Y$i))",
    "forall X (exists I$i (I$i = X and p(I$i)) -> q(X))", "forall X (exists I$i (I$i = X and p(I$i)) -> r)",
    "exists X (exists I$i J$i (I$i = X and p(J$i)) and q(X))", "exists X (p(X)) and q(X)", "q(X) or forall X (p(X))",
    "exists X (p(X) and exists X (q(X)))", "forall X Y (p(X))", "exists X (r)", "forall X (exists Y (exists Z (t(X,Y) and p(Z))))",
    "(p(1) -> q(1)) and (q(1) -> p(1))", "(p(1) -> q(1)) and (q(1) -> r)", "not not p(1)", "not not not p(1)",
    "1 < 1", "X = X", "X != X", "1 <= X$i <= X$i", "a = a = b", "p(1) and (p(1) and q(1))", "(q(1) and p(1)) and p(1)",
    "exists X (X = Y and exists Y (t(X, Y)))", "exists X (X = Y1 + 0 and p(X))", "exists N$i (N$i = 2 and N$i > X)",
    "exists X (1 = X and X = 2)", "exists X$i (1 = X$i and p(X$i) and X$i = 2)", "forall X (X = 1 and p(X))",
    "exists X (X = 1 or p(X))", "exists X (not (X = 1) and p(X))", "p(1) <- (q(1) <- r)", "(p(1) <- q(1)) <- r",
    "exists X Y (X = Y and Y = X and t(X, Y))", "exists X$i Y$i (X$i = Y$i + 1 and Y$i = X$i + 1)",
    "exists Y (exists N$i (N$i = Y and p(N$i)) and exists Y (q(Y)))",
    "forall Z (exists I$i Z (I$i = Z and p(Z)) -> r)", "exists Z (exists I$i (Z = I$i and p(I$i)) and not q(Z))",
    "exists I$i S$s (I$i = X and S$s = X and p(S$s))", "exists S$s I$i (S$s = X and I$i = X and p(I$i))", "exists I$i S$s (I$i = X and S$s = X)",
    "forall X X1 (t(X, X1) or exists X q(X))", "forall X X1 (exists X (q(X)) or t(X, X1))", "forall X (p(X) or exists X (q(X)) or exists X (hp(X)))",
    "forall V1 (exists X (V1 = X + 1 and q(X)) or exists X (V1 = X + 2 and p(X)) or exists X (V1 = X + 3 and hp(X)))",
    # double negation in front of every binary connective, with negated / doubly negated / plain operands on either side
    "not not (p(1) <- not q(1))", "not not (not p(1) <- q(1))", "not not (p(1) -> not q(1))", "not not (not p(1) -> q(1))", "not not (p(X) <- not not q(X))",
    "not not (r <- q(1))", "not not (not r and p(1))", "not not (not r or p(1))", "not not (p(1) <-> not q(1))", "not not not (p(1) <- not q(1))",
    "not not forall X (p(X) <- not q(X))", "not not exists X (not p(X) and q(X))", "q(1) and not not (p(1) <- not q(1))",
    "not p(1) -> p(1)", "p(1) -> not p(1)", "not r -> r", "(not p(X) -> p(X)) -> q(X)", "forall X (not p(X) -> p(X))", "not not r -> r", "r or not r",
]


def simp_transform(r):
    """group the 9 results of a simplify record by result tree; HT check if any intuitionistic/ht result is in the group"""
    if r["kind"] != "simp":
        return r
    groups = {}
    panics = []
    for o in r["outs"]:
        if "panic" in o:
            panics.append(o)
            continue
        key = json.dumps(o["out"], sort_keys=True)
        g = groups.setdefault(key, {"out": o["out"], "tags": [], "logic": "cl", "out_text": o["out_text"], "same": o["same"]})
        g["tags"].append(o["portfolio"] + "/" + o["strategy"])
        if o["portfolio"] in ("intuitionistic", "ht") or o["portfolio"].startswith("rewrite-ht"):
            g["logic"] = "ht"
    outs = [g for g in groups.values() if not g["same"]]
    r2 = {k: r[k] for k in ("id", "text", "nsyms", "syms", "f")}
    r2["kind"] = "equiv"
    r2["outs"] = [{"logic": g["logic"], "out": g["out"], "tags": g["tags"]} for g in outs]
    r2["unchanged"] = [t for g in groups.values() if g["same"] for t in g["tags"]]
    r2["panics"] = panics
    r2["passes"] = {o["portfolio"]: o.get("passes", []) for o in r["outs"] if o.get("strategy") == "fixpoint"}
    return r2


def simp_cases(ctx, nq, nt):
    cases = V.tlc_generate(ctx, "redex", nq if ctx.quick() else nt, 2)
    cases += V.tlc_generate(ctx, "formula", (nq // 3) if ctx.quick() else nt // 2, 2 if ctx.quick() else 3)
    cases += [{"id": f"e{i}", "f": f} for i, f in enumerate(SIMP_EXTRA)]
    # the formulas the portfolios really see: tau* / completion / gamma outputs of generated programs
    progs = V.tlc_generate(ctx, "sysrule", 40 if ctx.quick() else 400, 2, {"GEN_STRIDE": 37})
    progs += [{"id": f"t{i}", "prog": p} for i, p in enumerate(TABLE_PROGRAMS)]
    for rec in V.run_harness(ctx, "translate", progs, tag="-seen"):
        if rec["kind"] == "rule":
            cases.append({"id": "tau-" + rec["id"], "f": rec["tau_text"]})
    return cases


def run_C07(ctx):
    V.build()
    cases = simp_cases(ctx, 500, 3000)
    recs = V.run_harness(ctx, "simplify", cases)
    # every rewrite rule on its own (a wrong rule can be masked by a later rule of the portfolio)
    for r in V.run_harness(ctx, "rewrites", cases, tag="-single"):
        if r["kind"] == "simp":
            r["text"] = r["text"] + "   [single rewrites]"
            r["id"] = r["id"] + "/rw"
            recs.append(r)
    rejected = [r for r in recs if r["kind"] == "reject"]
    usable, skipped, violations, seen = [], {}, [], set()
    unchanged = 0
    for r in recs:
        if r["kind"] != "simp" or r["text"] in seen:
            continue
        seen.add(r["text"])
        r2 = simp_transform(r)
        r2["id"] = r["id"]
        for pn in r2["panics"]:
            violations.append({"check": "C07.panic", "text": r["text"], "detail": f"anthem panicked in {pn['portfolio']}/{pn['strategy']}: {pn['panic']}", "record": r})
        if not r2["outs"]:
            unchanged += 1
            continue
        why, _ = formula_cost_params(ctx, r2, len(usable), [r2["f"]] + [o["out"] for o in r2["outs"]])
        if why is None:
            usable.append(r2)
        else:
            skipped[why] = skipped.get(why, 0) + 1
    verdicts = V.tlc_validate(ctx, "TraceSem", usable, {})
    stats, viol = V.collect(verdicts, usable, "C07")
    for v in viol:
        v["detail"] += f"  [results: {v['verdict'].get('note')}]"
    violations += viol
    coverage = {
        "programs": len(usable), "cases_generated": len(cases), "formulas_unchanged_by_all_portfolios": unchanged,
        "disagreements_checked": stats["verdicts"], "evaluations": stats["evaluations"],
        "identical_normal_forms": stats["identical"], "unknown_evaluations": stats["unknown"],
        "distinct_nontrivial": len(stats["nontrivial_ids"]), "vacuous_or_constant": stats["vacuous"], "skipped": skipped,
        "rejected_by_parser": len(rejected),
        "rule": "rewrite-rule left-hand sides instantiated with TLC-generated sub-formulas (spec/Gen.tla mode redex: 44 templates), "
                "random sigma_0 formulas, hand-written traps, and the tau* outputs of generated rules; each input x {intuitionistic, ht, "
                "classic} x {shallow, recursive, fixpoint}, results grouped by tree; HT-equivalence for intuitionistic/ht results, "
                "classical equivalence for classic-only results, for every assignment of free variables; non-trivial as in C05",
        "samples": sample_records(usable, [v for v in verdicts if v["check"].startswith("C07")]), "exhaustive": False,
    }
    return V.finish(ctx, "translation_validation", coverage, violations, TV_ASSUME)


RUNNERS = {"C01": run_C01, "C08": run_C08, "C05": run_C05, "C17": run_C17, "C07": run_C07}
