"""./check selftest - demonstrates that the trace specifications are bound to what they validate: for each specification an accepted
record is corrupted in one field (a relation, a connective, an event, a verdict, a role ...) and must be REJECTED.  Exit 0 iff every
uncorrupted record is accepted and every corrupted one rejected.  Not a property check; no evidence file."""
import copy
import json

import vcheck as V
import p_core as C
import p_prover
import p_files
from vcheck import log


def walk(t, fn):
    """apply fn to the first dict node for which it returns True (depth first); returns whether something changed"""
    if isinstance(t, dict):
        if fn(t):
            return True
        return any(walk(v, fn) for v in t.values())
    if isinstance(t, list):
        return any(walk(v, fn) for v in t)
    return False


def flip_rel(node):
    if node.get("r") in ("lt", "le", "gt", "ge", "eq", "ne") and "t" in node:
        node["r"] = {"lt": "le", "le": "lt", "gt": "ge", "ge": "gt", "eq": "ne", "ne": "eq"}[node["r"]]
        return True
    return False


def swap_conn(node):
    if node.get("k") in ("and", "or") and "l" in node:
        node["k"] = "or" if node["k"] == "and" else "and"
        return True
    return False


def drop_not(node):
    if node.get("k") == "not" and isinstance(node.get("f"), dict):
        inner = node["f"]
        node.clear()
        node.update(inner)
        return True
    return False


def naive_cost(t, dom, mult=1):
    """number of quantifier-body instances the naive evaluator (Sigma0!Ground0) visits"""
    if isinstance(t, list):
        return sum(naive_cost(x, dom, mult) for x in t)
    if not isinstance(t, dict):
        return 0
    if t.get("k") in ("forall", "exists"):
        m = mult
        for v in t["vars"]:
            m *= dom[v["s"]]
        return m + naive_cost(t["f"], dom, m)
    return sum(naive_cost(v, dom, mult) for v in t.values() if isinstance(v, (dict, list)))


def sem_verdicts(ctx, prop, recs):
    ctx.prop = prop
    vs = V.tlc_validate(ctx, "TraceSem", recs, {"VERIF_PROP": prop}, workers=4)
    out = {}
    for v in vs:
        if v["check"].startswith(prop):
            out.setdefault(v["id"], []).append(v["v"])
    return out


def run_selftest(ctx):
    V.build()
    results = []

    def expect(name, ok):
        results.append((name, ok))
        log(f"  selftest {name}: {'ok' if ok else 'FAILED'}")

    # ---- C01 / C08: the tau* and natural trees of a rule
    recs = [r for r in V.run_harness(ctx, "translate", [{"id": "a", "prog": "p(X/2) :- q(X), X > 0."}, {"id": "b", "prog": "p(X+1) :- q(X), not r(X)."},
                                                        {"id": "c", "prog": "p(1..X) :- q(X)."}]) if r["kind"] == "rule"]
    for i, r in enumerate(recs):
        V.add_params(ctx, r, i, ["rule", "tau", "mu", "nat"], nvars=len(r["rule"]["vars"]), size=V.tree_size(r["rule"]))
    good = sem_verdicts(ctx, "C01", recs)
    expect("C01 accepts anthem's tau* output", all("DISAGREE" not in v for v in good.values()) and len(good) == len(recs))
    for mut, fn, field in (("relation flipped in tau*", flip_rel, "tau"), ("and/or swapped in tau*", swap_conn, "tau"), ("negation dropped in tau*", drop_not, "tau")):
        bad = copy.deepcopy(recs)
        changed = [walk(r[field], fn) for r in bad]
        res = sem_verdicts(ctx, "C01", [r for r, c in zip(bad, changed) if c])
        expect(f"C01 rejects: {mut}", bool(res) and any("DISAGREE" in v for v in res.values()))
    bad = copy.deepcopy(recs)
    changed = [walk(r["nat"], flip_rel) for r in bad]
    res = sem_verdicts(ctx, "C08", [r for r, c in zip(bad, changed) if c])
    expect("C08 rejects: relation flipped in the natural translation", bool(res) and any("DISAGREE" in v for v in res.values()))
    # ---- C05: gamma
    grecs = [r for r in V.run_harness(ctx, "gamma", [{"id": "g1", "f": "p(X) -> not q(X)"}, {"id": "g2", "f": "forall X (p(X) <-> q(X) or r)"}]) if r["kind"] == "gamma"]
    for i, r in enumerate(grecs):
        C.formula_cost_params(ctx, r, i, [r["f"]])
    good = sem_verdicts(ctx, "C05", grecs)
    expect("C05 accepts anthem's gamma output", all("DISAGREE" not in v for v in good.values()) and len(good) == len(grecs))
    bad = copy.deepcopy(grecs)

    def h_to_t(node):
        if node.get("k") == "atom" and node.get("p", "").startswith("h"):
            node["p"] = "t" + node["p"][1:]
            return True
        return False
    for r in bad:
        walk(r["g"], h_to_t)
    res = sem_verdicts(ctx, "C05", bad)
    expect("C05 rejects: an h-copy replaced by the t-copy", any("DISAGREE" in v for v in res.values()))
    # ---- C10: a real run, then corrupted logs
    task = p_prover.prepare_task(ctx, 0)
    names = list(task["shas"].keys())
    conc = {nm: {"o": "Theorem", "stdout_b64": p_prover.b64(b"% SZS status Theorem for x\n"), "delay_ms": 20 * k} for k, nm in enumerate(names)}
    conc[names[-1]] = {"o": "CounterSatisfiable", "stdout_b64": p_prover.b64(b"% SZS status CounterSatisfiable for x\n"), "delay_ms": 0}
    rec, _ = p_prover.one_run(ctx, "st0", task, {"exits": []}, conc, 2, "ok")
    ctx.prop = "C10"
    acc, _ = p_prover.validate(ctx, [rec])
    expect("C10 accepts a real run", rec["id"] in acc)
    variants = []
    v1 = copy.deepcopy(rec); v1["id"] = "st1"
    for e in v1["stdout"]:
        if e["ev"] == "verdict":
            e["success"] = not e["success"]
    variants.append(("verdict line flipped", v1))
    v2 = copy.deepcopy(rec); v2["id"] = "st2"
    v2["standin"] = [e for e in v2["standin"] if not (e["ev"] == "START" and e["p"] == 1)]
    variants.append(("a START record removed", v2))
    v3 = copy.deepcopy(rec); v3["id"] = "st3"
    v3["standin"].append(dict(v3["standin"][0]))
    variants.append(("a problem fed to the prover twice", v3))
    v4 = copy.deepcopy(rec); v4["id"] = "st4"
    v4["stdout"] = [e for e in v4["stdout"] if e["ev"] != "report"][:] + [e for e in v4["stdout"] if e["ev"] == "report"][:1]
    variants.append(("a report block lost / moved after the verdict", v4))
    v5 = copy.deepcopy(rec); v5["id"] = "st5"
    v5["saved"] = v5["saved"][:-1]
    variants.append(("one problem file not written", v5))
    acc, _ = p_prover.validate(ctx, [v for _, v in variants])
    for name, v in variants:
        expect(f"C10 rejects: {name}", v["id"] not in acc)
    # ---- Pipeline: hand-made event sequences
    import p_pipeline
    ctx.prop = "C11"
    E = lambda e, nf=0, code=0: {"e": e, "nfiles": nf, "code": code}
    base = {"fault": [], "save": True, "prove": True, "np": 2}
    precs = [dict(base, id="ok", ev=[E("save"), E("save"), E("start", 2), E("start", 2), E("verdict"), E("exit")]),
             dict(base, id="early-prover", ev=[E("save"), E("start", 1), E("save"), E("start", 2), E("verdict"), E("exit")]),
             dict(base, id="refused-but-saved", fault=["refuse"], ev=[E("save"), E("exit", code=1)]),
             dict(base, id="refused-ok", fault=["refuse"], ev=[E("exit", code=1)]),
             dict(base, id="wrong-code", ev=[E("save"), E("save"), E("start", 2), E("start", 2), E("verdict"), E("exit", code=1)]),
             dict(base, id="verdict-early", ev=[E("save"), E("save"), E("start", 2), E("verdict"), E("start", 2), E("exit")])]
    acc = {v["id"] for v in V.tlc_validate(ctx, "TracePipeline", precs, {"VERIF_MODE": "check"}, workers=1) if v.get("kind") == "accepted"}
    expect("Pipeline accepts a complete run and a clean refusal", {"ok", "refused-ok"} <= acc)
    for bad in ("early-prover", "refused-but-saved", "wrong-code", "verdict-early"):
        expect(f"Pipeline rejects: {bad}", bad not in acc)
    # ---- the machinery itself: abstract value domain (MCValues) and scheduled-vs-naive evaluation (MC_Eval of the plan)
    ctx.prop = "SELF"
    vals, out = V.run_tlc(ctx, "MCValues", "MCValues.cfg", {}, workers=4, timeout=900)
    expect("abstract values: arithmetic, order and Kleene connectives sound for every concretisation (MCValues)", "No error has been found" in out)
    cases = [{"id": f"t{i}", "prog": p} for i, p in enumerate(C.TABLE_PROGRAMS)]
    cases += V.tlc_generate(ctx, "sysrule", 60, 2, {"GEN_STRIDE": 23})
    cases += V.tlc_generate(ctx, "program", 40, 2)
    recs = [r for r in V.run_harness(ctx, "translate", cases) if r["kind"] == "rule"]
    small = []
    for i, r in enumerate(recs):
        ext = i % 2 == 1
        wlo, whi = (-1, 1) if i % 3 else (0, 2)
        dom = {"i": whi - wlo + 3, "s": 2, "g": whi - wlo + 3 + 2 + 2}
        if naive_cost(r["tau"], dom) * V.tree_size(r["tau"]) > 4000000:
            continue
        r["pp"] = {"wlo": wlo, "whi": whi, "lo": max(wlo, -1), "hi": whi, "minsyms": 1, "nbs": 1, "ext": ext}
        r["naive"] = True
        small.append(r)
    vs = [v for v in V.tlc_validate(ctx, "TraceSem", small, {"VERIF_PROP": "SELF"}, workers=8) if v["check"] == "SELF.scheduled_vs_naive"]
    nd = sum(1 for v in vs if v["v"] == "DISAGREE")
    log(f"  scheduled vs naive evaluator: {len(vs)} of {len(recs)} tau* formulas (naive cost bound), {sum(v['n'] for v in vs)} evaluations, "
        f"{sum(v['unk'] for v in vs)} with an unknown side, {sum(v['ident'] for v in vs)} identical groundings, {nd} disagreements")
    for v in vs:
        if v["v"] == "DISAGREE":
            log("   ", v["id"], V.wit_str(v))
    expect("scheduled evaluator (definition binding, conjunct scheduling) agrees with the naive evaluator on anthem's tau* output", len(vs) >= 40 and nd == 0)
    # MC_Sem: reference translation (Translations.tla) = reference semantics (MiniGringo.tla) on systematic and random rules; anthem = both
    cases = [{"id": f"t{i}", "prog": p} for i, p in enumerate(C.TABLE_PROGRAMS)]
    cases += V.tlc_generate(ctx, "sysrule", 150, 2, {"GEN_STRIDE": 13})
    cases += V.tlc_generate(ctx, "sysnest", 80, 2, {"GEN_STRIDE": 97})
    cases += V.tlc_generate(ctx, "program", 40, 2)
    rrecs, seen = [], set()
    for r in V.run_harness(ctx, "translate", cases, tag="-ref"):
        if r["kind"] != "rule" or json.dumps(r["rule"], sort_keys=True) in seen:
            continue
        seen.add(json.dumps(r["rule"], sort_keys=True))
        if V.add_params(ctx, r, len(rrecs), ["rule", "tau", "nat"], nvars=len(r["rule"]["vars"]), size=V.tree_size(r["rule"])) is None:
            rrecs.append(r)
    vs = V.tlc_validate(ctx, "TraceSem", rrecs, {"VERIF_PROP": "SELF"})
    for chk in ("SELF.reference_translation_vs_reference_semantics", "SELF.anthem_vs_reference_translation", "SELF.reference_natural_vs_reference_semantics",
                "SELF.anthem_vs_reference_natural", "SELF.natural_defined_iff_regular"):
        sel = [v for v in vs if v["check"] == chk]
        bad = [v for v in sel if v["v"] == "DISAGREE"]
        log(f"  {chk}: {len(sel)} rules, {sum(v['n'] for v in sel)} evaluations, {sum(v['ident'] for v in sel)} identical groundings, {len(bad)} disagreements")
        for v in bad[:5]:
            log("   ", v["id"], next((r["text"] for r in rrecs if r["id"] == v["id"]), ""), V.wit_str(v))
        expect(chk.replace("SELF.", "").replace("_", " "), len(sel) >= 100 and not bad)
    # the same for gamma
    gcases = V.tlc_generate(ctx, "formula", 120, 2) + [{"id": f"ge{i}", "f": f} for i, f in enumerate(
        ["p(X) -> not q(X)", "forall X (p(X) <-> q(X) or r)", "(p(1) <- q(1)) <- r", "not not p(1) -> p(1)", "exists X (p(X) and not forall Y (t(X, Y) -> q(Y)))"])]
    grecs2 = [r for r in V.run_harness(ctx, "gamma", gcases, tag="-gref") if r["kind"] == "gamma"]
    guse = []
    for i, r in enumerate(grecs2):
        if C.formula_cost_params(ctx, r, i, [r["f"]])[0] is None:
            guse.append(r)
    vs = V.tlc_validate(ctx, "TraceSem", guse, {"VERIF_PROP": "SELF"})
    for chk in ("SELF.reference_gamma_reduces_ht_to_classical", "SELF.anthem_vs_reference_gamma"):
        sel = [v for v in vs if v["check"] == chk]
        bad = [v for v in sel if v["v"] == "DISAGREE"]
        log(f"  {chk}: {len(sel)} formulas, {sum(v['n'] for v in sel)} evaluations, {sum(v['ident'] for v in sel)} identical groundings, {len(bad)} disagreements")
        expect(chk.replace("SELF.", "").replace("_", " "), len(sel) >= 60 and not bad)
    ok = all(x for _, x in results)
    print(f"selftest: {sum(1 for _, x in results if x)}/{len(results)} expectations met")
    return 0 if ok else 1
