"""C14 / C15: printing a parsed program / theory / specification / user guide re-parses to the same tree."""
import json
import os

import vcheck as V
import p_core as C

ASP_EXTRA = [
    "p(-1).", "p(-(1)).", "p(- 1).", "p(--1).", "p(- -1).", "p(-X).", "p(-(-X)).", "p(1 - -1).", "p(1 -1).", "p(1--1).", "p(-(1..2)).", "p((1..2)..3).",
    "p(1..(2..3)).", "p(1..2..3).", "p(1 - 2 - 3).", "p(1 - (2 - 3)).", "p(2 * 3 + 4).", "p(2 * (3 + 4)).", "p((2 + 3) * 4).", "p(2 / 3 / 4).",
    "p(2 / (3 / 4)).", "p(2 \\ 3 * 4).", "p((X * 7) \\ 5).", "p(X * (7 \\ 5)).", "p(1 + 2 .. 3 * 4).", "p((1 + 2) .. 3).", "p(1 + (2 .. 3)).",
    "p(-X * 2).", "p(-(X * 2)).", "p(- X .. 2).", "p(-(X .. 2)).", "p(3 * - 2).", "p(3 * -2).", "p(-0).", "p(-(0)).", "p(0).", "p(-(-(7))).",
    "p(not+1).", "p :- not<1.", "p(nota).", "p :- nota.", "p :- not nota.", "p :- not not not_a.", "p(#inf, #sup, #infimum, #supremum).",
    ":- .", ":-.", "#false.", "#false :- p.", " :- p, q; r.", "{p}.", "{p(1..2)} :- q(X), X != 1.", "p().", "p :- q().", "p(a) :- X = a, Y != X; Z < Y.",
    "p(X) :- X = 1 .. 2, not q(X), not not r(X).", "p(_a, a_B, aB9_).", "_p(_a).", "p(X1, Y22, ABC).", "p(1, 2, 3, 4, 5, 6, 7, 8, 9, 10).",
    "% comment\np. % another\nq :- p.", "p.q.r.", "", "   ", "% only a comment", "p(9223372036854775807).", "p(-9223372036854775808).",
]
FOL_EXTRA = [
    ("theory", "forall X (Y = 3)."), ("theory", "forall X Y = 3."), ("theory", "exists J$i Y = J$i."), ("theory", "forall X p(X)."), ("theory", "forall X (p(X))."),
    ("theory", "forall X not p(X)."), ("theory", "not forall X p(X)."), ("theory", "not not p."), ("theory", "forall X exists Y t(X, Y)."),
    ("theory", "forall X (exists Y (t(X, Y)))."), ("theory", "forall X X$i X$s (X = X$i)."), ("theory", "p -> q -> r."), ("theory", "(p -> q) -> r."),
    ("theory", "p -> (q -> r)."), ("theory", "p <- q <- r."), ("theory", "p <- (q <- r)."), ("theory", "p <-> q <-> r."), ("theory", "p <-> (q <-> r)."),
    ("theory", "p -> q <- r."), ("theory", "p <- q -> r."), ("theory", "(p <-> q) <- r."), ("theory", "p <-> (q <- r)."), ("theory", "(p -> q) <- r."),
    ("theory", "(p <- q) -> r."), ("theory", "(p <-> q) -> r."), ("theory", "p <- (q <-> r)."), ("theory", "(p <- q) <-> r."), ("theory", "p -> (q <-> r)."),
    ("theory", "exists X$s (X$s = a)."), ("theory", "forall S$s (S$s != b)."), ("theory", "exists X$s Y$s (X$s < Y$s)."), ("theory", "forall X$g (X$g = 1)."),
    ("theory", "exists _X (_X = 1)."), ("theory", "forall X (c$i = X)."), ("theory", "forall X (a = X)."), ("theory", "forall X (#inf < X)."), ("theory", "forall X (1 < X)."), ("theory", "p and q or r."), ("theory", "p or q and r."), ("theory", "(p or q) and r."),
    ("theory", "p and (q or r)."), ("theory", "not p and q."), ("theory", "not (p and q)."), ("theory", "forall X p(X) and q."), ("theory", "forall X (p(X) and q)."),
    ("theory", "forall X p(X) -> q."), ("theory", "(forall X p(X)) -> q."), ("theory", "p -> forall X q(X)."), ("theory", "p and forall X q(X) and r."),
    ("theory", "1 < 2 < 3."), ("theory", "X = Y = Z."), ("theory", "-1 < X$i."), ("theory", "- 1 < X$i."), ("theory", "-(1) < X$i."), ("theory", "-X$i < 1."),
    ("theory", "-(-X$i) = X$i."), ("theory", "--X$i = X$i."), ("theory", "N$i - -1 = 0."), ("theory", "N$i - 1 - 2 = 0."), ("theory", "N$i - (1 - 2) = 0."),
    ("theory", "2 * N$i + 1 = 0."), ("theory", "2 * (N$i + 1) = 0."), ("theory", "-(N$i + 1) = 0."), ("theory", "-N$i + 1 = 0."), ("theory", "p(-(5))."),
    ("theory", "p(a, X$s, c$s, d$g, e$i, #inf, #sup)."), ("theory", "p(X$, X$i, X$integer, X$g, X$general, X$s, X$symbol)."), ("theory", "exists_x(1)."),
    ("theory", "forall_x."), ("theory", "nota."), ("theory", "andy and ory."), ("theory", "p(and_)."), ("theory", "#true."), ("theory", "#false."), ("theory", ""),
    ("theory", "% c\n"), ("theory", "forall X$i Y$i (X$i * Y$i = Y$i * X$i)."), ("theory", "forall X (X = X$i -> exists I$ (I$ = X))."),
    ("specification", "spec: p."), ("specification", "spec(forward): p."), ("specification", "spec(universal)[n]: p."), ("specification", "lemma[l_1]: forall X p(X)."),
    ("specification", "inductive-lemma: forall N$i (N$i >= 0 -> p(N$i))."), ("specification", "definition(backward)[d]: forall X (d(X) <-> p(X))."),
    ("specification", "assumption: forall X (Y = 3)."), ("specification", ""), ("user-guide", "input: p/1. output: q/0. input: n -> integer. input: c."),
    ("user-guide", "input: n -> general. input: s -> symbol. assumption: n > 0."), ("user-guide", "input: p/1.\n% c\noutput: q/2."), ("user-guide", ""),
    ("user-guide", "assumption(forward)[a1]: forall X (p(X) -> X > n)."),
]


# identifiers that begin with (or are) a word of the target language; numerals under unary minus; long names
KEYWORD_PROGRAMS = [
    "nota(X) :- q(X).", "p(and).", "p(or).", "p(not).", "p(forall).", "p(exists).", "exists_x(1).", "forall_x(X) :- q(X).", "or :- p(1).", "and.",
    "p(X) :- q(X), X != forall.", "p(X) :- q(X), not andy(X).", "orange(X) :- q(X).", "p(notx, andx, orx).", "exists(X) :- p(X).", "p(-(5)).", "p(- 5) :- q(-(1)).",
    "p(X) :- q(X), X = -(2).", "p(-(-(3))).", "p(1 - -1).", "p(inf, sup).", "p(#inf, #sup).", "p(general, integer, symbol, i, g, s).", "p(X) :- q(X), X != i.",
    "input(X) :- output(X).", "spec(X) :- lemma(X), definition(X), assumption(X).",
]


def canon(t):
    return json.dumps(t, sort_keys=True)


def roundtrip_records(ctx, cases):
    recs = V.run_harness(ctx, "roundtrip", cases)
    out = []
    seen = set()
    for r in recs:
        if r["kind"] != "roundtrip":
            continue
        key = (r["as"], r["text"])
        if key in seen:
            continue
        seen.add(key)
        rec = {"id": r["id"], "kind": "roundtrip", "text": f"[{r['as']}] {r['text']}", "stage": r["stage"], "text2": r.get("text2", ""),
               "text3": r.get("text3", ""), "tree1s": canon(r.get("tree1")), "tree2s": canon(r.get("tree2")),
               "problem": r.get("error") or r.get("panic") or "", "origin": r.get("origin", "")}
        out.append(rec)
    return out


def finish_rt(ctx, prefix, cases, recs, verdicts, rule, extra_violations):
    stats, violations = V.collect(verdicts, recs, prefix)
    violations += extra_violations
    accepted = [r for r in recs if r["stage"] != "parse1"]
    shapes = {r["tree1s"] for r in accepted}
    coverage = {
        "evaluations": len(recs), "distinct_nontrivial": len(shapes), "texts_accepted": len(accepted), "texts_rejected_by_parser": len(recs) - len(accepted),
        "reprinted_text_differs_from_input": len([r for r in accepted if r["text2"].strip() != r["text"].split("] ", 1)[1].strip()]),
        "rule": rule, "samples": [{"text": r["text"], "printed": r["text2"]} for r in accepted[:4]], "exhaustive": False,
    }
    return V.finish(ctx, "exploration", coverage, violations, [
        "trees are compared through the mechanical serializer of the harness (one constructor per JSON record)"])


def respelled_duplicates(cases, every):
    """a program followed by itself in another spelling (blanks, `;` for `,`): the same rule twice is still two rules"""
    out = []
    for k, c in enumerate(cases):
        if k % every == 0 and c["as"] == "program" and len(c["text"]) < 200:
            t = c["text"]
            t2 = t.replace(", ", ",").replace(" :- ", ":-  ") if k % 2 == 0 else t.replace(", ", " ; ").replace("(", "( ")
            out.append({"id": c["id"] + "/twice", "as": "program", "text": t + " " + t2, "origin": c.get("origin", "")})
    return out


def nesting_sweep(maxdepth):
    """every nesting depth of NECESSARY parentheses up to maxdepth, with each spelling of the innermost term: a limit of the reader
    (or of the printer) at some depth shows as a text that is accepted while its printed form is not"""
    out = []
    for d in range(1, maxdepth + 1):
        for v, inner in enumerate(["- 1", "-(1)", "-X", "1 + X"]):
            body = inner
            for k in range(d):
                body = f"2 * ({body} + {k % 3})" if k % 2 == 0 else f"({body} - 1) / 2"
            out.append({"id": f"deep{d}v{v}", "as": "program", "text": f"p({body}) :- q(X)."})
        if d % 4 == 0:
            out.append({"id": f"deepneg{d}", "as": "program", "text": "p(" + "-(" * d + "X" + ")" * d + ") :- q(X)."})
    return out


def nesting_sweep_fol(maxdepth):
    """the same for theories: connectives and integer terms nested to every depth"""
    out = []
    for d in range(1, maxdepth + 1):
        body = ["p(N$i)", "not q", "N$i < - 1", "p(-N$i)"][d % 4]
        for k in range(d):
            body = f"q and ({body} or r)" if k % 2 == 0 else f"not ({body} -> r)"
        out.append({"id": f"deepf{d}", "as": "theory", "text": body + "."})
        for v, inner in enumerate(["- 1", "-(1)", "-N$i"]):
            t = inner
            for k in range(d):
                t = f"2 * ({t} + {k % 3})" if k % 2 == 0 else f"({t} - 1) * 2"
            out.append({"id": f"deept{d}v{v}", "as": "theory", "text": f"p({t})."})
    return out


def run_C14(ctx):
    V.build()
    q = ctx.quick()
    cases = V.tlc_generate(ctx, "aspsyntax", 2500 if q else 40000, 2 if q else 3)
    for mode, n, stride in (("sysrule", 1476, 1), ("sysnest", 700 if q else 6003, 9 if q else 1), ("sysnames", 200 if q else 3200, 17 if q else 1)):
        for c in V.tlc_generate(ctx, mode, n, 2, {"GEN_STRIDE": stride}):
            cases.append({"id": c["id"], "as": "program", "text": c["prog"]})
    for c in V.tlc_generate(ctx, "program", 300 if q else 5000, 3):
        cases.append({"id": c["id"], "as": "program", "text": c["prog"]})
    cases += [{"id": f"x{i}", "as": "program", "text": t} for i, t in enumerate(ASP_EXTRA + C.TABLE_PROGRAMS)]
    for i, (name, text) in enumerate(V.repo_programs()):
        cases.append({"id": f"repo{i}", "as": "program", "text": text, "origin": name})
    cases += respelled_duplicates(cases, 12 if q else 3) + nesting_sweep(160 if q else 400)
    recs = roundtrip_records(ctx, cases)
    verdicts = V.tlc_validate(ctx, "TraceSem", recs, {}, workers=4)
    return finish_rt(ctx, "C14", cases, recs, verdicts,
                     "program texts derived by TLC from the mini-gringo grammar printed loosely (spec/Gen.tla mode aspsyntax: random parentheses, "
                     "spacing, unary-minus spellings, every operator nesting) + every term of depth <= 2 in every rule position (fully "
                     "parenthesised, so every tree of that depth is in the parser's image) + hand-written edge texts + repository programs; "
                     "distinct = distinct parsed tree", [])


def run_C15(ctx):
    V.build()
    q = ctx.quick()
    cases = V.tlc_generate(ctx, "folsyntax", 3000 if q else 50000, 2 if q else 3)
    for c in V.tlc_generate(ctx, "formula", 500 if q else 8000, 2 if q else 3) + V.tlc_generate(ctx, "redex", 300 if q else 3000, 2):
        cases.append({"id": c["id"], "as": "theory", "text": c["f"] + "."})
    cases += [{"id": f"x{i}", "as": a, "text": t} for i, (a, t) in enumerate(FOL_EXTRA)]
    cases += nesting_sweep_fol(140 if q else 300)
    base = os.path.join(V.REPO, "res", "examples")
    k = 0
    for root, _, files in os.walk(base):
        for fn in sorted(files):
            kind = {"spec": "specification", "ug": "user-guide", "po": "specification"}.get(fn.rsplit(".", 1)[-1])
            if kind:
                cases.append({"id": f"repo{k}", "as": kind, "text": open(os.path.join(root, fn)).read(), "origin": fn})
                k += 1
    # everything translate and simplify print for generated programs must be accepted again
    progs = V.tlc_generate(ctx, "program", 120 if q else 2500, 2) + V.tlc_generate(ctx, "sysrule", 150 if q else 1476, 2, {"GEN_STRIDE": 59 if q else 1})
    progs += V.tlc_generate(ctx, "sysnames", 80 if q else 1600, 2, {"GEN_STRIDE": 41 if q else 2})
    progs += [{"id": f"t{i}", "prog": p} for i, p in enumerate(C.TABLE_PROGRAMS + KEYWORD_PROGRAMS)]
    for i, (name, text) in enumerate(V.repo_programs()):
        progs.append({"id": f"rp{i}", "prog": V.strip_comments(text)})
    extra = []
    nout = 0
    internal = []
    harness_outputs = V.run_harness(ctx, "outputs", progs)
    for r in harness_outputs:
        if r["kind"] == "panic":
            extra.append({"check": "C15.panic", "text": r["text"], "detail": "anthem panicked while translating: " + r["panic"], "record": r})
        if r["kind"] == "outputs":
            for t in r["texts"]:
                nout += 1
                cases.append({"id": f"{r['id']}/{t['what']}", "as": "theory", "text": t["text"], "origin": f"{t['what']} of `{r['text'][:80]}`"})
                rp = t["reparse"]
                internal.append({"id": f"{r['id']}/{t['what']}/internal", "kind": "roundtrip", "text": f"[{t['what']} of `{r['text'][:120]}`] {t['text']}",
                                 "stage": rp["stage"], "text2": t["text"], "text3": rp.get("text3", ""), "tree1s": canon(t["tree1"]),
                                 "tree2s": canon(rp.get("tree2")), "problem": rp.get("problem", ""), "origin": t["what"]})
    # binding of the in-process results to the command line: `anthem translate` / `anthem simplify` print exactly these texts
    import subprocess
    ncli = 0
    work = ctx.path("cli15")
    os.makedirs(work, exist_ok=True)
    outs = [r for r in harness_outputs if r["kind"] == "outputs"]
    for r in outs[:: max(1, len(outs) // (25 if q else 250))]:
        with open(os.path.join(work, "p.lp"), "w") as fh:
            fh.write(r["text"])
        by = {t["what"]: t["text"] for t in r["texts"]}
        for what in ("tau-star", "mu", "natural"):
            if what not in by:
                continue
            cr = subprocess.run([V.ANTHEM, "translate", "--with", what, os.path.join(work, "p.lp")], stdout=subprocess.PIPE, stderr=subprocess.PIPE, text=True, timeout=60)
            ncli += 1
            if cr.returncode != 0 or cr.stdout != by[what]:
                extra.append({"check": "C15.cli_prints_what_the_library_computes", "text": r["text"],
                              "detail": f"`anthem translate --with {what}` (exit {cr.returncode}) printed {cr.stdout[:200]!r}, the library computes {by[what][:200]!r}", "record": {"prog": r["text"]}})
        with open(os.path.join(work, "t.th"), "w") as fh:
            fh.write(by["tau-star"])
        for pf in ("intuitionistic", "ht", "classic"):
            cr = subprocess.run([V.ANTHEM, "simplify", "--portfolio", pf, "--strategy", "fixpoint", os.path.join(work, "t.th")], stdout=subprocess.PIPE, stderr=subprocess.PIPE, text=True, timeout=60)
            ncli += 1
            # the CLI simplifies the theory it PARSED from the tau* text; after the round-trip checks above that is the same theory
            if cr.returncode != 0 or cr.stdout != by[f"simplify-{pf}-tau-star"]:
                extra.append({"check": "C15.cli_prints_what_the_library_computes", "text": r["text"],
                              "detail": f"`anthem simplify --portfolio {pf}` on the tau* text (exit {cr.returncode}) printed {cr.stdout[:200]!r}, the library computes {by[f'simplify-{pf}-tau-star'][:200]!r}", "record": {"prog": r["text"]}})
    # theories as INPUT of the command line: whatever `translate --with completion | gamma` and `simplify` print on success is a theory again
    ths = V.tlc_generate(ctx, "theory", 60 if q else 600, 1)
    ths += [{"id": f"tx{i}", "theory": t} for i, t in enumerate([
        "forall X (q(X) -> p(X)). forall X (q(X) -> #true).", "forall X (p(X) <- q(X)). #true <- r.", "forall X (q(X) -> p(X)). r -> #true. forall X (#true <- p(X)).",
        "forall X (q(X) -> #false). forall X (q(X) -> #true).", "forall X (q(X) and #true -> p(X)). #true.", "#true. #false -> r.", "forall X Y (t(X, Y) -> p(X)). forall X (p(X) -> #true) .",
    ])]
    for c in ths:
        with open(os.path.join(work, "in.spec"), "w") as fh:
            fh.write(c["theory"])
        for args in (["translate", "--with", "completion"], ["translate", "--with", "gamma"], ["simplify", "--portfolio", "classic", "--strategy", "recursive"]):
            cr = subprocess.run([V.ANTHEM] + args + [os.path.join(work, "in.spec")], stdout=subprocess.PIPE, stderr=subprocess.PIPE, text=True, timeout=60)
            ncli += 1
            if cr.returncode == 0:
                nout += 1
                cases.append({"id": f"{c['id']}/cli-{args[-1]}", "as": "theory", "text": cr.stdout, "origin": f"`anthem {' '.join(args)}` of `{c['theory'][:80]}`"})
    recs = roundtrip_records(ctx, cases)
    # the theory translate / simplify hold in memory vs. the theory their printed text parses to
    seen_i = set()
    for r in internal:
        if r["text2"] not in seen_i:
            seen_i.add(r["text2"])
            recs.append(r)
    # an output of translate / simplify that anthem itself does not accept is a violation already at the first parse
    for r in recs:
        if r["origin"] and r["stage"] == "parse1" and ("/" in r["id"]):
            extra.append({"check": "C15.translate_output_is_accepted", "text": r["text"], "detail": f"output ({r['origin']}) is rejected: {r['problem']}", "record": r})
    verdicts = V.tlc_validate(ctx, "TraceSem", recs, {}, workers=4)
    return finish_rt(ctx, "C15", cases, recs, verdicts,
                     "theory / specification / user-guide texts derived by TLC from the sigma_0 grammar printed loosely (spec/Gen.tla mode folsyntax: "
                     "every spelling of the sorts, placeholders, prefix chains, chained comparisons, equal-precedence connective mixes, roles, "
                     "directions, names) + generated formulas and simplifier redexes + hand-written edge texts + the repository's .spec/.ug/.po "
                     "files + every text translate (tau-star, mu, natural, gamma, completion) and simplify (3 portfolios) print for generated "
                     "programs; distinct = distinct parsed tree", extra)
