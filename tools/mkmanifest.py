#!/usr/bin/env python3
"""Regenerates /verif/MANIFEST.json from the table below (keeps the file valid at all times)."""
import json
import os

VERIF = os.path.dirname(os.path.dirname(os.path.abspath(__file__)))
TV = "translation_validation"
MC = "model_checking"
EX = "exploration"

SEM_NOTE = ("TLC; TLA+ semantic core (Values/PropHT/Sigma0/MiniGringo); bounded base and window, three-valued evaluation that is "
            "sound for the infinite domain (unknown never alarms); division per documented semantics D1; mechanical tree serializers")

# id -> (category, text, design_ref, level_note, technique, engine)
CLAIMED = {
    "C01": (TV, "every tau* formula anthem emits for a generated rule is checked HT-equivalent to the TLA+ reference semantics of that "
                "rule, for every HT interpretation over a finite base, by TLC; texts printed by the reference grammar (Syntax.tla) with minimal "
                "parentheses must parse to the tree they were printed from", "7.1 C01", SEM_NOTE,
            "TLA+ reference semantics + TLC trace validation of anthem's tau* output (translation validation)", "tla-sem"),
    "C02": (TV, "for every generated external-equivalence task anthem accepts and every emitted problem family, TLC compares - for every "
                "classical interpretation of all predicates (both private copies) over the base and every placeholder value - 'some "
                "forward/backward problem is refuted' with the reference oracle (stable models by brute force from the rule semantics, "
                "private parts by support, user-guide and specification formulas evaluated on the input trees); formula texts printed by the "
                "reference grammar (Syntax.tla) must parse to the tree they were printed from", "7.1 C02",
            SEM_NOTE + "; tasks without proof outline and without identifier clashes; side vocabulary = predicates occurring on that side",
            "TLA+ reference semantics + TLC trace validation of the emitted problem families", "tla-sem"),
    "C03": (TV, "for every generated pair of programs and emitted family, TLC compares - for every pair of extents (H,T) of the h/t copies, "
                "H not necessarily below T - 'some forward/backward problem is refuted' with 'H below T, (H,T) HT-satisfies one program "
                "(reference grounding) and not the other'", "7.1 C03", SEM_NOTE,
            "TLA+ reference HT semantics + TLC trace validation of the emitted problem families", "tla-sem"),
    "C04": (TV, "for every generated program anthem reports tight and every admissible input set, TLC compares, for every classical "
                "interpretation over the mentioned atoms, 'model of anthem's completion' with 'stable model of the program' (brute force over "
                "all smaller H); completion also compared with a reference completion built in TLA+; theories with a listed defect must be "
                "refused", "7.1 C04", SEM_NOTE + "; tightness is anthem's own report",
            "TLA+ reference semantics (stable models by enumeration) + TLC trace validation of completion output", "tla-sem"),
    "C05": (TV, "for every generated formula, every assignment and every pair H subset T over the base, TLC compares HT satisfaction of F "
                "with classical satisfaction of anthem's gamma(F) under the h/t copy interpretation; copies checked distinct", "7.1 C05",
            SEM_NOTE, "TLA+ HT/classical semantics + TLC trace validation of gamma output", "tla-sem"),
    "C06": (TV, "the TEXT of every rendered formula is read back by a strict TFF reader, typed by Tptp.tla, mapped through the standard "
                "interpretation into sigma_0 and compared by TLC with the source formula for every interpretation and placeholder value; "
                "inside emitted problems (C09/C12 runs) the same comparison is made per formula", "7.1 C06",
            SEM_NOTE + "; strict TFF reader tools/tff.py, syntax verdicts cross-checked with the repository's tptp4X",
            "TLA+ standard interpretation of TFF + TLC trace validation of tptp::Format output", "tla-syntax"),
    "C07": (TV, "each of the 9 portfolio x strategy results anthem computes for a generated formula is checked equivalent to the input by "
                "TLC (HT for intuitionistic/ht, classical for classic) for every interpretation and assignment; no new free variables",
            "7.1 C07", SEM_NOTE, "TLA+ semantics + TLC trace validation of simplifier output", "tla-sem"),
    "C08": (TV, "natural and mu outputs are checked HT-equivalent, rule by rule, to anthem's tau* output and to the TLA+ reference "
                "semantics, for every HT interpretation over a finite base, by TLC", "7.1 C08", SEM_NOTE,
            "TLA+ reference semantics + TLC trace validation of natural/mu output", "tla-sem"),
    "C09": (MC, "every distinct problem text emitted for adversarial-identifier tasks and ordinary tasks is read back and judged by the TFF "
                "typing judgement of Tptp.tla evaluated by TLC (declared exactly once at the used type, variables bound and typed, $int "
                "signature, unique names, exactly one conjecture); known genuine defects are listed in known_findings.json", "7.1 C09",
            "TLC; strict TFF reader (syntax cross-checked with tptp4X); the typing judgement is TFF0 without overloading",
            "TLA+ typing judgement for TFF evaluated by TLC on every recorded problem text", "tla-syntax"),
    "C10": (MC, "Prover.tla (one action per step of Command::Verify / prove_all / Vampire::prove) is model-checked exhaustively for small "
                "constants (exactly-once, at-most-N, verdict iff all Theorem, termination under fairness) and its flag part (FlagExact, FlagMonotone) "
                "is proved with TLAPS for arbitrary constants (ProverProofs.tla, 65 obligations); TLC-generated behaviours are "
                "replayed as plans against the real binary with a stand-in prover and every real run is validated by TLC as a behaviour "
                "of the model", "7.1 C10",
            "TLC; the stand-in prover and the stdout parser; a Theorem line combined with a non-zero exit is never planned",
            "TLA+ state machine of the prover pool, TLC model checking + trace validation of real runs (two logs, TLC chooses the merge)",
            "tla-prover"),
    "C11": (MC, "two definitions of acyclicity agree on all graphs with <= 4 nodes (TLC); `analyze` output and task acceptance are compared by "
                "TLC with Analysis.tla (tightness, documented regularity, private recursion, listed task preconditions) on abstract programs, "
                "term shapes, long cycles and tasks that violate exactly one condition; refused tasks checked to write no file; the stage machine of `verify` (Pipeline.tla, TLC: 5 invariants, termination; TLAPS: the three stage invariants for any number of problems) is "
                "replayed on real tasks for every fault x flag scenario with a stand-in prover and the observed events are validated by TracePipeline.tla", "7.1 C11",
            "TLC; the conditions judged are those listed in the property; acceptance is required only for program-vs-program tasks",
            "TLA+ definitions of the analyses + TLC trace validation of analyze output and task acceptance", "tla-pipeline"),
    "C12": (MC, "every axiom anthem adds on its own (preamble, symbol order chain, h-implies-t) in every recorded problem text is mapped through "
                "the standard interpretation and evaluated by TLC on windows of radius 1-6: it must not be false; the order axioms must be a "
                "chain through all symbolic constants consistent with the byte order of the users' names", "7.1 C12",
            "TLC; bounded three-valued evaluation (an axiom is reported only when definitely false on a window)",
            "TLA+ standard interpretation + TLC evaluation of anthem's own axioms in recorded problems", "tla-syntax"),
    "C13": (MC, "Outline.tla (sequencing of outline problems as a state machine) is model-checked for every outline of <= 3 entries; generated "
                "outlines are run through anthem and TLC validates acceptance against the acceptance predicates with the evolving taken set, "
                "the sequencing condition on the observed problem list, and base case / inductive step against F(n) and F(N) -> F(N+1) "
                "computed by assigning the induction variable", "7.1 C13",
            SEM_NOTE + "; 'occurs nowhere in the task' read as the code's taken-predicate set (DESIGN 7.0)",
            "TLA+ state machine of outline sequencing + acceptance predicates, TLC model checking and trace validation", "tla-pipeline"),
    "C14": (EX, "program texts derived by TLC from the grammar with loose parenthesisation and every term shape of depth <= 2 are parsed, "
                "printed, parsed and printed again; TLC compares the two trees and the two texts", "7.1 C14",
            "TLC-generated texts; trees compared through the mechanical serializer; exploration, not exhaustive beyond depth 2",
            "TLA+ grammar-driven text generation + TLC comparison of print/parse round trips", "tla-syntax"),
    "C15": (EX, "theory / specification / user-guide texts derived by TLC from the grammar (all sort spellings, prefix chains, chained "
                "comparisons, roles, directions) and every text translate and simplify print for generated programs are round-tripped; for "
                "the outputs the in-memory theory is also compared with the theory its printed text parses to", "7.1 C15",
            "as C14", "TLA+ grammar-driven text generation + TLC comparison of print/parse round trips", "tla-syntax"),
    "C16": (EX, "Cli.tla gives the life cycle of a process (terminal states: status 0/1/2, diagnostic if not 0; no panic, signal or "
                "non-termination); grammar-derived texts, repository files, edge texts and their token-level mutations are run through every "
                "applicable command and each run is validated by TLC as an outcome of the model", "7.1 C16",
            "token-level grammar-aware mutation, not byte-level fuzzing; time limit 10 s (re-run alone with 40 s) decides non-termination",
            "TLA+ life-cycle model + TLC validation of recorded process runs on grammar-derived and mutated inputs", "tla-pipeline"),
    "C17": (TV, "for every generated (formula, variable, term) TLC checks Sat(F[x:=t], e) = Sat(F, e[x := value of t]) for every "
                "interpretation and assignment, and the free-variable equation", "7.1 C17", SEM_NOTE,
            "TLA+ semantics + TLC trace validation of Formula::substitute", "tla-sem"),
    "C18": (EX, "SimplifyLoop.tla models the fixpoint strategy; the harness drives the loop pass by pass (<= 64) and TLC validates the hash "
                "sequence (no revisit, stops, library loop returns the same formula, result is a fixed point); every command is run twice "
                "in separate processes and hash-order-sensitive verify tasks five times, outputs compared byte for byte by TraceCli.tla",
            "7.1 C18", "termination explored with a pass bound, not proved; hash-seed nondeterminism observed, not modelled",
            "TLA+ model of the fixpoint loop + TLC validation of driven pass sequences; repeated-run comparison", "tla-pipeline"),
    "C19": (TV, "for C02/C03 tasks under ALL combinations of --no-simplify, --no-eq-break, --decomposition (and mu for strong), TLC checks "
                "for every enumerated interpretation that 'some problem of the direction is refuted' has the same value in every family",
            "7.1 C19", SEM_NOTE, "TLC comparison of the emitted problem families (no reference semantics involved)", "tla-sem"),
    "C20": (MC, "Files.tla models Files::sort (one action per visited entry) and the role accessors; TLC checks walk = declarative walk and "
                "the swap/move properties on every bounded layout; TLC-generated layouts are materialised on disk, run through the real CLI "
                "and the observed roles (marker numerals in axioms/conjectures) validated against the model, including the swapped run",
            "7.1 C20", "TLC; roles observed through marker numerals in saved problems; at most the first .spec/.ug/.po is used as in files.rs",
            "TLA+ model of file-role assignment, TLC model checking + generated layouts replayed through the CLI + trace validation",
            "tla-pipeline"),
}

PENDING = "check not built yet in this revision (work in progress; see DESIGN.md section 12)"
ALL = [f"C{i:02d}" for i in range(1, 21)]


def main():
    checks = []
    for pid in ALL:
        if pid not in CLAIMED:
            continue
        cat, text, ref, note, tech, eng = CLAIMED[pid]
        checks.append({
            "property_id": pid,
            "quick_cmd": f"./check {pid} --tier quick",
            "thorough_cmd": f"./check {pid} --tier thorough",
            "evidence_file": f"/verif/evidence/{pid}.json",
            "replay_cmd_template": f"./check {pid} --replay {{path}}",
            "engine": eng,
            "level_claimed": {"category": cat, "text": text, "design_ref": ref},
            "level_note": note,
            "technique": tech,
        })
    engines = {}
    for pid, v in CLAIMED.items():
        engines.setdefault(v[5], []).append(pid)
    kinds = {
        "tla-sem": "TLA+ specification of the two logics (reference semantics + trace specifications) checked with TLC; harness/ replays "
                   "TLC-generated cases into anthem and records traces",
        "tla-prover": "TLA+ state machine of the verify pipeline's concurrent tail; TLC model checking, plan generation and trace validation",
        "tla-pipeline": "TLA+ models of the verify pipeline (problem assembly, outlines, files, CLI) with TLC model checking and trace validation",
        "tla-syntax": "TLA+ grammar-driven generators and trace specifications for the text boundary (round trips, TPTP reading)",
    }
    man = {
        "version": 1,
        "setup_cmd": "./check setup",
        "hooks": {
            "guard": "cargo feature `verif` (cfg(feature = \"verif\"))",
            "enable": "harness/Cargo.toml depends on anthem = { path = \"/repo\", features = [\"verif\"] }; `cargo build --release --offline` in /verif/harness",
            "baseline_off_cmd": "cd /repo && cargo test --workspace --no-fail-fast --offline",
            "source_commits": ["c982967"],
            "add_only": True,
        },
        "engines": [{"name": k, "path": "/verif/spec", "serves_properties": sorted(v), "kind_free_text": kinds.get(k, "")}
                    for k, v in sorted(engines.items())],
        "checks": checks,
        "not_applicable": [{"property_id": p, "reason": PENDING} for p in ALL if p not in CLAIMED],
        "notes": "Exit codes: 0 held, 1 VIOLATION, 2 tool error. VERIF_SEED and VERIF_TIER honoured.",
    }
    with open(os.path.join(VERIF, "MANIFEST.json"), "w") as f:
        json.dump(man, f, indent=1)
        f.write("\n")
    print(f"MANIFEST.json: {len(checks)} checks, {len(man['not_applicable'])} not applicable")


if __name__ == "__main__":
    main()
