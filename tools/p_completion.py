"""C04: completion of a tight program's theory has exactly its stable models; non-completable theories are refused."""
import itertools
import json

import vcheck as V
import p_core as C

THEORY_EXTRA = [
    ("forall X (q(X) -> p(X)).", []), ("forall X (q(X) -> p(X)). forall Y (r(Y) -> p(Y)).", []),
    ("forall X (q(X) -> p(1)).", []), ("forall X (q(X) -> p(X, X)).", []), ("q(X) -> p(X).", []),
    ("forall X (p(X) <- q(X)). forall X (p(X) <- r(X)).", ["q/1"]), ("forall X Y (t(X, Y) -> p(X)).", []),
    ("forall X (q(X) -> #false).", []), ("forall X$i (q(X$i) -> p(X$i)).", []), ("s <- not s.", []), ("q -> s. r -> s.", ["q/0"]),
    ("forall X Y (t(X, Y) -> p(X, Y)). forall X Y (t(X, Y) -> p(Y, X)).", []), ("forall X (q(X) -> p(X)). forall X (r(X) -> p(X)).", ["p/1"]),
    ("forall X (exists Y t(X, Y) -> p(X)).", []), ("forall X (q(X) -> p(a)).", []), ("forall X (q(X) -> exists Y p(Y)).", []),
    # a head variable repeated in non-adjacent positions, at several sorts; three distinct arguments as the positive control
    ("forall X Y (t(X, Y) -> t3(X, Y, X)).", []), ("forall X$i Y (t(X$i, Y) -> t3(X$i, Y, X$i)).", []), ("forall X Y (t3(X, Y, X) <- t(X, Y)).", []),
    ("forall X Y Z (t(X, Y) and q(Z) -> t3(X, Y, Z)).", []), ("forall X Y (t(X, Y) -> t3(Y, X, Y)). forall X Y Z (t(X, Y) and q(Z) -> t3(X, Y, Z)).", []),
    ("forall X Y (q(X) and r(Y) -> p(X)). forall X (not r(X) -> #false).", []), ("forall X X$i (q(X) and q(X$i) -> p(X, X$i)).", []),
]


def run_C04(ctx):
    V.build()
    q = ctx.quick()
    progs = V.tlc_generate(ctx, "program", 150 if q else 800, 1 if q else 2)
    progs += V.tlc_generate(ctx, "sysrule", 60 if q else 738, 2, {"GEN_STRIDE": 197 if q else 2})
    progs += [{"id": f"t{i}", "prog": p} for i, p in enumerate(C.TABLE_PROGRAMS + C04_PROGRAMS)]
    for i, (name, text) in enumerate(V.repo_programs()):
        progs.append({"id": f"repo{i}", "prog": V.strip_comments(text), "origin": name})
    # pass 1: which programs are tight, which predicates can be inputs (do not occur in heads)
    first = V.run_harness(ctx, "completion", [dict(c, inputs=[]) for c in progs], tag="-p1")
    cases, nontight = [], 0
    seen = set()
    for r in first:
        if r["kind"] != "completion":
            continue
        if r["text"] in seen:
            continue
        seen.add(r["text"])
        if not r["tight"]:
            nontight += 1
            continue
        heads = {(p["p"], p["n"]) for p in r["heads"]}
        cand = [f'{p["p"]}/{p["n"]}' for p in r["preds"] if (p["p"], p["n"]) not in heads]
        subsets = [list(s) for k in range(len(cand) + 1) for s in itertools.combinations(cand, k)]
        if q and len(subsets) > 2:
            subsets = [subsets[0], subsets[-1]]
        for k, sub in enumerate(subsets):
            cases.append({"id": f"{r['id']}/i{k}", "prog": r["text"] if "\n" not in r["text"] else r["text"], "inputs": sub})
    theories = V.tlc_generate(ctx, "theory", 160 if q else 1500, 1)
    theories += [{"id": f"te{i}", "theory": t, "inputs": inp} for i, (t, inp) in enumerate(THEORY_EXTRA)]
    recs = V.run_harness(ctx, "completion", cases, tag="-p2") + V.run_harness(ctx, "completion", theories, tag="-th")
    panics = [r for r in recs if r["kind"] == "panic"]
    usable, skipped = [], {}
    for r in recs:
        if r["kind"] not in ("completion", "completable"):
            continue
        if r["kind"] == "completion":
            trees = r["tau"] + r["completion"]
            why, _ = C.formula_cost_params(ctx, r, len(usable), trees, extra_free=0)
            if why is None:
                nv = max([len(x["vars"]) for x in r["rules"]] + [0])
                why = V.add_params(ctx, r, len(usable), ["rules", "tau", "completion"], nvars=nv, size=V.tree_size(r["rules"]))
        else:
            why, _ = C.formula_cost_params(ctx, r, len(usable), r["theory"] + r["completion"])
        if why is None:
            # small base: stable models are enumerated over every subset of the mentioned atoms
            r["pp"].update({"lo": 0, "hi": 1, "ext": False, "nbs": 1})
            usable.append(r)
        else:
            skipped[why] = skipped.get(why, 0) + 1
    verdicts = V.tlc_validate(ctx, "TraceSem", usable, {})
    stats, violations = V.collect(verdicts, usable, "C04")
    for p in panics:
        violations.append({"check": "C04.panic", "text": p["text"], "detail": "anthem panicked: " + p["panic"], "record": p})
    by_check = {}
    for v in verdicts:
        by_check[v["check"] + ":" + v["v"]] = by_check.get(v["check"] + ":" + v["v"], 0) + 1
    coverage = {
        "programs": len([r for r in usable if r["kind"] == "completion"]), "theories": len([r for r in usable if r["kind"] == "completable"]),
        "programs_not_tight_skipped": nontight,
        "disagreements_checked": stats["verdicts"] - stats["skip"], "evaluations": stats["evaluations"],
        "unknown_evaluations": stats["unknown"], "distinct_nontrivial": len(stats["nontrivial_ids"]),
        "vacuous_or_constant": stats["vacuous"], "skipped": skipped, "verdicts_by_check": by_check,
        "rule": "(a) programs derived by TLC (spec/Gen.tla) + repository examples + table shapes that anthem reports tight, with every subset "
                "(quick: empty and full) of the predicates not occurring in heads as inputs: for every classical interpretation over the atoms "
                "mentioned by the two groundings, model of anthem's completion iff stable model of the program (brute force over all H below "
                "T); (b) theories from a shape grammar around the completable fragment: listed defect => refused; accepted => classically "
                "equivalent to the reference completion of spec/TraceSem.tla; non-trivial = both true and false on the explored interpretations",
        "samples": C.sample_records(usable, [v for v in verdicts if v["check"].startswith("C04")]), "exhaustive": False,
    }
    return V.finish(ctx, "translation_validation", coverage, violations, C.TV_ASSUME + [
        "tightness is anthem's own report (its exactness is C11's subject)",
        "integer-sorted head variables are accepted by anthem and are outside the property's refusal list"])


C04_PROGRAMS = [
    "p(X) :- q(X), not r(X). r(X) :- q(X), X > 0.", "{p(X)} :- q(X). :- p(X), r(X).", "p(1..2). r(X) :- p(X), not q(X).",
    "p(X/2) :- q(X). r(X) :- p(X).", "s :- not not s.", "s :- q(X), not p(X). p(X) :- r(X).", "p(X) :- q(X). p(X) :- r(X), X != 1.",
    "t(X, Y) :- q(X), q(Y), X < Y. p(X) :- t(X, Y).", "p(X) :- q(X). r(X) :- not p(X), q(X). s :- r(1).",
    "{p(0..1)}. r(X) :- p(X). :- r(0), r(1).", "p(a). r(X) :- p(X), q(X).", "p(X) :- X = 0..1, not q(X).", "r(X+1) :- q(X). p(X) :- r(X), not q(X).",
    # several rules for one predicate, only some with variables named like the head variables of the completed definitions
    "p(V1) :- q(V1). p(X) :- r(X), X > 0.", "p(V2) :- q(V2), not r(V1), q(V1). p(V1) :- r(V1), V1 < 0. p(X) :- q(X), X = 3.", "t(V2, X) :- q(X), r(V2). t(X, Y) :- q(X), q(Y), X < Y.",
    ":- q(X), not p(X). {p(X)} :- q(X).", "p(X, Y) :- q(X), r(Y). s :- p(X, X).", "p :- q. r :- not p.", "p(X) :- q(X), not not r(X). {r(X)} :- q(X).",
]
