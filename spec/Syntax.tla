------------------------------- MODULE Syntax -------------------------------
(***************************************************************************)
(* The REFERENCE GRAMMAR of anthem's two input languages, as far as        *)
(* precedence, associativity and scope are concerned - what a TEXT means   *)
(* as a tree.  The other generators print fully parenthesised or loosely   *)
(* parenthesised text and take the tree anthem's own parser returns; here  *)
(* the direction is reversed: a tree of the abstract syntax is printed     *)
(* with the FEWEST parentheses the tables below allow, and the real parser *)
(* must return exactly that tree (in the JSON encoding of the harness,     *)
(* Appendix A).                                                            *)
(*                                                                         *)
(* mini-gringo terms (parsing/asp/mini_gringo/pest.rs), loosest first:     *)
(*     ..   <   + -   <   * / \   <   unary -          all infix: left     *)
(* sigma_0 integer terms:   + -  <  *  <  unary -      all infix: left     *)
(* sigma_0 formulas, loosest first:                                        *)
(*     <-> (right)  -> (right)  <- (left)   <   or (left)   <   and (left) *)
(*     <   not, forall, exists (prefix: scope is the next primary)         *)
(* Two DIFFERENT arrows are never printed next to each other without       *)
(* parentheses (their relative grouping is not something a user should     *)
(* rely on).  Numerals are non-negative, so that "-" is always the         *)
(* operator.                                                               *)
(***************************************************************************)
EXTENDS Integers, Sequences, TLC

\* ---------------------------------------------------------------- terms
TLevel(k) == CASE k = "ivl" -> 1 [] k \in {"add", "sub"} -> 2 [] k \in {"mul", "div", "mod"} -> 3 [] k = "neg" -> 4 [] OTHER -> 5
TSym(k) == CASE k = "ivl" -> ".." [] k = "add" -> "+" [] k = "sub" -> "-" [] k = "mul" -> "*" [] k = "div" -> "/" [] k = "mod" -> "\\"
Paren(s) == "(" \o s \o ")"
\* text of term t in a position that needs at least level `min`; sp: spelling variant (spaces)
RECURSIVE TText(_, _, _)
TText(t, min, sp) ==
  LET lv == TLevel(t.k)
      s == CASE t.k = "var" -> t.v
             [] t.k = "num" -> ToString(t.n)
             [] t.k = "sym" -> t.c
             [] t.k = "fc" -> t.c \o "$" \o t.s
             [] t.k = "neg" -> "-" \o TText(t.a, IF t.a.k \in {"neg", "num"} THEN 6 ELSE 4, sp)   \* no "--", no "-1"
             [] OTHER -> TText(t.l, lv, sp) \o sp \o TSym(t.k) \o sp \o TText(t.r, lv + 1, sp)
  IN IF lv < min THEN Paren(s) ELSE s

\* ---------------------------------------------------------------- formulas
FLevel(k) == CASE k \in {"iff", "imp", "rimp"} -> 1 [] k = "or" -> 2 [] k = "and" -> 3 [] k \in {"not", "forall", "exists"} -> 4 [] OTHER -> 5
FSym(k) == CASE k = "iff" -> "<->" [] k = "imp" -> "->" [] k = "rimp" -> "<-" [] k = "or" -> "or" [] k = "and" -> "and"
RightAssoc(k) == k \in {"iff", "imp"}
RelSym(r) == CASE r = "eq" -> "=" [] r = "ne" -> "!=" [] r = "lt" -> "<" [] r = "le" -> "<=" [] r = "gt" -> ">" [] r = "ge" -> ">="
VarText(v) == v.n \o (IF v.s = "g" THEN "" ELSE "$" \o v.s)
FVarT(t) == IF t.k = "var" THEN [t EXCEPT !.v = t.v \o (IF t.s = "g" THEN "" ELSE "$" \o t.s)] ELSE t
RECURSIVE FTermText(_), JoinArgs(_), JoinGuards(_), JoinVars(_), FText(_, _)
\* sigma_0 terms carry the sort with the variable
FTermText(t) == CASE t.k = "var" -> t.v \o (IF t.s = "g" THEN "" ELSE "$" \o t.s)
                  [] t.k = "neg" -> "-" \o (IF TLevel(t.a.k) < 4 \/ t.a.k \in {"neg", "num"} THEN Paren(FTermText(t.a)) ELSE FTermText(t.a))
                  [] t.k \in {"add", "sub", "mul"} ->
                       LET lv == TLevel(t.k)
                           l == IF TLevel(t.l.k) < lv THEN Paren(FTermText(t.l)) ELSE FTermText(t.l)
                           r == IF TLevel(t.r.k) < lv + 1 THEN Paren(FTermText(t.r)) ELSE FTermText(t.r)
                       IN l \o " " \o TSym(t.k) \o " " \o r
                  [] OTHER -> TText(t, 1, " ")
JoinArgs(a) == IF a = <<>> THEN "" ELSE IF Len(a) = 1 THEN FTermText(a[1]) ELSE FTermText(a[1]) \o ", " \o JoinArgs(Tail(a))
JoinGuards(g) == IF g = <<>> THEN "" ELSE " " \o RelSym(g[1].r) \o " " \o FTermText(g[1].t) \o JoinGuards(Tail(g))
JoinVars(v) == IF v = <<>> THEN "" ELSE " " \o VarText(v[1]) \o JoinVars(Tail(v))
FText(f, min) ==
  LET lv == FLevel(f.k)
      s == CASE f.k = "true" -> "#true"
             [] f.k = "false" -> "#false"
             [] f.k = "atom" -> f.p \o (IF f.args = <<>> THEN "" ELSE Paren(JoinArgs(f.args)))
             [] f.k = "cmp" -> FTermText(f.t) \o JoinGuards(f.g)
             [] f.k = "not" -> "not " \o FText(f.f, 4)
             [] f.k \in {"forall", "exists"} -> f.k \o JoinVars(f.vars) \o " " \o FText(f.f, 4)
             [] OTHER ->
                  \* an operand at the same level keeps its place without parentheses only on the associative side and,
                  \* among the arrows, only if it is the SAME arrow
                  LET same(x) == FLevel(x.k) = lv /\ (lv # 1 \/ x.k = f.k)
                      lmin == IF same(f.l) /\ ~RightAssoc(f.k) THEN lv ELSE lv + 1
                      rmin == IF same(f.r) /\ RightAssoc(f.k) THEN lv ELSE lv + 1
                  IN FText(f.l, lmin) \o " " \o FSym(f.k) \o " " \o FText(f.r, rmin)
  IN IF lv < min THEN Paren(s) ELSE s

\* ---------------------------------------------------------------- systematic tree families
V(x) == [k |-> "var", v |-> x]
Nm(n) == [k |-> "num", n |-> n]
Neg(a) == [k |-> "neg", a |-> a]
Bin(k, l, r) == [k |-> k, l |-> l, r |-> r]
TOps == <<"ivl", "add", "sub", "mul", "div", "mod">>
\* (a op1 b) op2 c  and  c op2 (a op1 b), each with a unary minus in one of five places (or none)
NAspTerms == 36 * 2 * 6
AspTerm(i) ==
  LET o1 == TOps[(i % 6) + 1]
      o2 == TOps[((i \div 6) % 6) + 1]
      left == (i \div 36) % 2 = 0
      ng == (i \div 72) % 6
      a == IF ng = 1 THEN Neg(V("X")) ELSE V("X")
      b == IF ng = 2 THEN Neg(V("Y")) ELSE Nm(1)
      c == IF ng = 3 THEN Neg(V("Y")) ELSE Nm(2)
      inner == IF ng = 4 THEN Neg(Bin(o1, a, b)) ELSE Bin(o1, a, b)
      whole == IF left THEN Bin(o2, inner, c) ELSE Bin(o2, c, inner)
  IN IF ng = 5 THEN Neg(whole) ELSE whole

\* ---------------------------------------------------------------- rules: head kind x two body elements (sign x atom | comparison) x separator
RRels == <<"eq", "ne", "lt", "le", "gt", "ge">>
RAtom(j) == IF j = 0 THEN [p |-> "q", args |-> <<V("X")>>] ELSE [p |-> "s", args |-> <<V("X"), Nm(1)>>]
RAtomText(a) == a.p \o "(" \o (IF Len(a.args) = 1 THEN TText(a.args[1], 1, " ") ELSE TText(a.args[1], 1, " ") \o ", " \o TText(a.args[2], 1, " ")) \o ")"
\* body element e in 0..11: 0..5 a literal (sign = e \div 2, atom = e % 2), 6..11 the comparison X rel 2
RElem(e) == IF e < 6 THEN [k |-> "lit", sign |-> e \div 2, a |-> RAtom(e % 2)] ELSE [k |-> "cmp", l |-> V("X"), r |-> RRels[e - 5], rt |-> Nm(2)]
RElemText(e) == IF e < 6 THEN (IF e \div 2 = 0 THEN "" ELSE IF e \div 2 = 1 THEN "not " ELSE "not not ") \o RAtomText(RAtom(e % 2))
                ELSE "X " \o RelSym(RRels[e - 5]) \o " 2"
NAspRules == 4 * 12 * 12 * 2
AspRule(i) ==
  LET hk == i % 4
      e1 == (i \div 4) % 12
      e2 == (i \div 48) % 12
      sep == IF (i \div 576) % 2 = 0 THEN ", " ELSE "; "
      ha == [p |-> "p", args |-> <<V("X")>>]
      head == IF hk = 0 THEN [k |-> "basic", a |-> ha] ELSE IF hk = 1 THEN [k |-> "choice", a |-> ha] ELSE [k |-> "falsity"]
      htext == IF hk = 0 THEN "p(X) " ELSE IF hk = 1 THEN "{p(X)} " ELSE IF hk = 2 THEN "" ELSE "#false "
  IN [text |-> htext \o ":- " \o RElemText(e1) \o sep \o RElemText(e2) \o ".", head |-> head, body |-> <<RElem(e1), RElem(e2)>>]

\* ---------------------------------------------------------------- entries of specifications, proof outlines and user guides
ERoles == <<"assumption", "spec", "lemma", "definition", "inductive-lemma">>
EDirs == <<"", "forward", "backward", "universal">>
P1 == [k |-> "atom", p |-> "p", args |-> <<Nm(1)>>]
\* role x direction annotation (none means universal) x name annotation
NSpecEntries == 5 * 4 * 2
SpecEntry(i) ==
  LET role == ERoles[(i % 5) + 1]
      d == EDirs[((i \div 5) % 4) + 1]
      named == (i \div 20) % 2 = 1
  IN [text |-> role \o (IF d = "" THEN "" ELSE "(" \o d \o ")") \o (IF named THEN "[nm_1]" ELSE "") \o ": p(1).",
      tree |-> [role |-> role, dir |-> IF d = "" THEN "universal" ELSE d, name |-> IF named THEN "nm_1" ELSE "", f |-> P1]]
\* input / output declarations of predicates, placeholders with and without sort, annotated assumptions
NUgEntries == 6 + 4 + 8
UgEntry(i) ==
  IF i < 6 THEN LET io == IF i % 2 = 0 THEN "input" ELSE "output" n == i \div 2
                IN [text |-> io \o ": pr_1/" \o ToString(n) \o ".", tree |-> [k |-> io, p |-> [p |-> "pr_1", n |-> n]]]
  ELSE IF i < 10 THEN LET j == i - 6
                          srt == <<"", "integer", "symbol", "general">>[j + 1]
                      IN [text |-> "input: c_1" \o (IF srt = "" THEN "" ELSE " -> " \o srt) \o ".",
                          tree |-> [k |-> "placeholder", c |-> "c_1", s |-> IF srt = "integer" THEN "i" ELSE IF srt = "symbol" THEN "s" ELSE "g"]]
  ELSE LET e == SpecEntry((i - 10) * 5) IN [text |-> e.text, tree |-> [k |-> "formula", a |-> e.tree]]

A0(p) == [k |-> "atom", p |-> p, args |-> <<>>]
GV(x) == [k |-> "var", v |-> x, s |-> "g"]
IV(x) == [k |-> "var", v |-> x, s |-> "i"]
A1(p, x) == [k |-> "atom", p |-> p, args |-> <<GV(x)>>]
FOps == <<"iff", "imp", "rimp", "or", "and">>
FBin(k, l, r) == [k |-> k, l |-> l, r |-> r]
Not(f) == [k |-> "not", f |-> f]
Qf(q, x, f) == [k |-> q, vars |-> <<[n |-> x, s |-> "g"]>>, f |-> f]
\* (A op1 B) op2 C  and  C op2 (A op1 B) with a prefix operator (not / forall / exists) in one of the places
NFolForms == 25 * 2 * 8
FolForm(i) ==
  LET o1 == FOps[(i % 5) + 1]
      o2 == FOps[((i \div 5) % 5) + 1]
      left == (i \div 25) % 2 = 0
      px == (i \div 50) % 8
      pa == A1("p", "X")
      qa == A0("q")
      ra == A1("r", "X")
      a == IF px = 1 THEN Not(pa) ELSE IF px = 2 THEN Qf("forall", "X", pa) ELSE pa
      b == IF px = 3 THEN Not(qa) ELSE IF px = 4 THEN Qf("exists", "Y", A1("p", "Y")) ELSE qa
      inner0 == FBin(o1, a, b)
      inner == IF px = 5 THEN Not(inner0) ELSE IF px = 6 THEN Qf("forall", "X", inner0) ELSE inner0
      whole == IF left THEN FBin(o2, inner, ra) ELSE FBin(o2, ra, inner)
  IN IF px = 7 THEN Qf("exists", "X", whole) ELSE whole
\* comparisons: chains and integer-term precedence
IOpsS == <<"add", "sub", "mul">>
NFolCmps == 9 * 2 * 4
FolCmp(i) ==
  LET o1 == IOpsS[(i % 3) + 1]
      o2 == IOpsS[((i \div 3) % 3) + 1]
      left == (i \div 9) % 2 = 0
      ng == (i \div 18) % 4
      a == IF ng = 1 THEN Neg(IV("N")) ELSE IV("N")
      inner == IF ng = 2 THEN Neg(Bin(o1, a, Nm(1))) ELSE Bin(o1, a, Nm(1))
      t == IF left THEN Bin(o2, inner, Nm(2)) ELSE Bin(o2, Nm(2), inner)
      t2 == IF ng = 3 THEN Neg(t) ELSE t
      c == [k |-> "cmp", t |-> t2, g |-> <<[r |-> "lt", t |-> GV("X")], [r |-> "le", t |-> Nm(3)]>>]
  IN FBin("and", c, A1("p", "X"))
=============================================================================
