SPECIFICATION CSpec
CONSTANT MaxStages = 4
INVARIANT Terminal
PROPERTY Terminates
CHECK_DEADLOCK FALSE
