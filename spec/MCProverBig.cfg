SPECIFICATION Spec
CONSTANTS
 Configs <- MCConfigsBig
 Outcomes <- MCOutcomesBig
 MaxN = 5
INVARIANTS TypeOK AtMostN ExactlyOnce NeverTwice ReportedAll VerdictIffAllTheorem FlagExact AnnouncedInOrder PoolAnnouncesFirst
PROPERTIES FlagMonotone
CHECK_DEADLOCK FALSE
