--------------------------- MODULE TracePipeline ---------------------------
(***************************************************************************)
(* Trace specification for the stage discipline of `anthem verify`         *)
(* (Pipeline.tla).  Mode "gen": print every scenario of the model (faults  *)
(* x flags) - the harness realises each on real tasks.  Mode "check": one  *)
(* ndjson line per real run,                                               *)
(*   [id, fault, save, prove, np, ev]                                      *)
(* where ev is the observed event sequence: "save" (a problem file exists),*)
(* "start" (the stand-in prover was started; nfiles = problem files it saw *)
(* at that moment), "verdict", "exit" (code).  A run is accepted iff the   *)
(* events are, in this order, a behaviour of Pipeline for the run's faults *)
(* and flags; the unlogged steps (Sort, Load, Decide, SaveDone) are taken  *)
(* silently.  One line is printed per accepted run; for every run the      *)
(* expected observation Obs is printed so that a rejection can be          *)
(* explained.                                                              *)
(***************************************************************************)
EXTENDS Pipeline, Json, IOUtils, SequencesExt
Mode == IOEnv.VERIF_MODE
Rec == IF Mode = "check" THEN ndJsonDeserialize(IOEnv.VERIF_TRACE) ELSE <<>>
VARIABLES i, l
tvars == <<pvars, i, l>>
Scenarios == {[fault |-> F, save |-> s, prove |-> p] : F \in SUBSET FaultNames, s \in BOOLEAN, p \in BOOLEAN}
ASSUME Mode = "gen" => \A sc \in Scenarios : PrintT(ToJson([fault |-> SetToSeq(sc.fault), save |-> sc.save, prove |-> sc.prove,
                                                              obs |-> Obs(sc.fault, [save |-> sc.save, prove |-> sc.prove], 2)]))
FaultSet(r) == {r.fault[k] : k \in DOMAIN r.fault}
TInit == /\ i \in DOMAIN Rec /\ l = 1
         /\ pc = "start" /\ fault = FaultSet(Rec[i]) /\ flags = [save |-> Rec[i].save, prove |-> Rec[i].prove] /\ np = Rec[i].np
         /\ nsaved = 0 /\ nstarted = 0 /\ verdict = FALSE /\ code = -1
         /\ PrintT(ToJson([id |-> Rec[i].id, kind |-> "expected", obs |-> Obs(fault, flags, np)]))
Ev == Rec[i].ev
IsEv(e) == l <= Len(Ev) /\ Ev[l].e = e /\ l' = l + 1 /\ UNCHANGED i
Silent == (Sort \/ Load \/ Decide \/ SaveDone) /\ pc' # "exited" /\ UNCHANGED <<i, l>>
TSave == IsEv("save") /\ SaveOne /\ pc' # "exited"
TStart == IsEv("start") /\ StartOne /\ (flags.save => Ev[l].nfiles = nsaved)
TVerdict == IsEv("verdict") /\ Verdict
TExit == IsEv("exit") /\ (Usage \/ Sort \/ Load \/ Decide \/ SaveOne \/ Finish) /\ pc' = "exited" /\ code' = Ev[l].code
TNext == Silent \/ TSave \/ TStart \/ TVerdict \/ TExit
TSpec == TInit /\ [][TNext]_tvars
\* reported through a state constraint, evaluated on every reachable state
Report == (pc = "exited" /\ l = Len(Ev) + 1) => PrintT(ToJson([id |-> Rec[i].id, kind |-> "accepted"]))
Inv == NoObligationBeforeAcceptance /\ FilesBeforeProvers /\ VerdictAfterAllStarted /\ ExitCodes /\ ObsRight
=============================================================================
