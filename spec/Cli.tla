--------------------------------- MODULE Cli ---------------------------------
(***************************************************************************)
(* The life cycle of one anthem process (property C16, and the determinism *)
(* half of C18): src/main.rs + command_line/procedures.rs.                 *)
(*   start --Usage--> exited(2)            clap rejects the command line   *)
(*   start --ReadFail--> exited(1)         the input cannot be read        *)
(*   start --Read--> read --ParseFail--> exited(1)   pest / tree building  *)
(*                   read --ParseOk--> parsed                              *)
(*   parsed --StageOk--> parsed            translate / simplify / analyze /*)
(*                                         verify stages (bounded number)  *)
(*   parsed --StageFail--> exited(1)       a stage refuses (not regular,   *)
(*                                         not completable, task refused)  *)
(*   parsed --Finish--> exited(0)          output printed                  *)
(* `main` returns anyhow::Result, so every non-zero exit carries a         *)
(* diagnostic on stderr.  There is NO transition to a panic (status 101),  *)
(* to death by a signal, or to running forever: an observed run that ends  *)
(* that way is not a behaviour of this model.                              *)
(***************************************************************************)
EXTENDS Integers, Sequences, TLC
CONSTANT MaxStages
VARIABLES pc, stages, code, diag
cvars == <<pc, stages, code, diag>>
CInit == pc = "start" /\ stages = 0 /\ code = -1 /\ diag = FALSE
Exit(c, d) == pc' = "exited" /\ code' = c /\ diag' = d /\ UNCHANGED stages
Usage == pc = "start" /\ Exit(2, TRUE)
ReadFail == pc = "start" /\ Exit(1, TRUE)
Read == pc = "start" /\ pc' = "read" /\ UNCHANGED <<stages, code, diag>>
ParseFail == pc = "read" /\ Exit(1, TRUE)
ParseOk == pc = "read" /\ pc' = "parsed" /\ UNCHANGED <<stages, code, diag>>
StageOk == pc = "parsed" /\ stages < MaxStages /\ stages' = stages + 1 /\ UNCHANGED <<pc, code, diag>>
StageFail == pc = "parsed" /\ Exit(1, TRUE)
Finish == pc = "parsed" /\ Exit(0, FALSE)
CNext == Usage \/ ReadFail \/ Read \/ ParseFail \/ ParseOk \/ StageOk \/ StageFail \/ Finish
CSpec == CInit /\ [][CNext]_cvars /\ WF_cvars(CNext)
Terminal == pc = "exited" => code \in {0, 1, 2} /\ (code # 0 => diag)
Terminates == <>(pc = "exited")
\* the observable outcomes of the model: an observed run must be one of them
Outcomes == {[code |-> 0, diag |-> FALSE], [code |-> 0, diag |-> TRUE], [code |-> 1, diag |-> TRUE], [code |-> 2, diag |-> TRUE]}
=============================================================================
