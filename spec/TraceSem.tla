------------------------------ MODULE TraceSem ------------------------------
(***************************************************************************)
(* Trace specification for the SEMANTIC properties (implementation ->      *)
(* specification direction).  Every line of the ndjson trace is one thing  *)
(* the real anthem produced for one input (harness/src/main.rs); this      *)
(* module accepts the line iff what anthem produced means what the         *)
(* specification says it must mean, for EVERY interpretation over the      *)
(* record's finite base, every assignment of free variables and every      *)
(* placeholder value - the quantifiers of the properties are evaluated by  *)
(* TLC here, not by the harness.                                           *)
(*                                                                         *)
(* Behaviour:  Init --Pick(i)--> picked(i) --Eval--> done(i)               *)
(* Pick is cheap and has one successor per trace line; Eval does all the   *)
(* work for its line, so TLC's workers process lines in parallel.          *)
(* Eval prints one JSON verdict per line; `check` collects them.           *)
(*                                                                         *)
(* verdict.v:  "agree"    every definite evaluation agreed                 *)
(*             "DISAGREE" a definite counterexample exists (witness given) *)
(*             "skip"     record kind carries nothing to check here        *)
(* counts:     n_eval, n_unknown (three-valued U: never an alarm),         *)
(*             n_true / n_false (non-vacuity: how often the reference side *)
(*             was true / false among the definite evaluations)            *)
(***************************************************************************)
EXTENDS MiniGringo, Analysis, Tptp, Translations, Json, IOUtils, FiniteSetsExt, SequencesExt

Rec == ndJsonDeserialize(IOEnv.VERIF_TRACE)
Lo == atoi(IOEnv.VERIF_LO)          \* this JVM handles lines Lo .. Hi (sharding)
Hi == IF atoi(IOEnv.VERIF_HI) > Len(Rec) THEN Len(Rec) ELSE atoi(IOEnv.VERIF_HI)
HTCap == atoi(IOEnv.VERIF_HTCAP)    \* atoms enumerated exhaustively for HT checks (3^n pairs)
CLCap == atoi(IOEnv.VERIF_CLCAP)    \* atoms enumerated exhaustively for classical checks (2^n)
Rot == atoi(IOEnv.VERIF_SEED)       \* rotates which atoms form the exhaustive core
FullHT == IOEnv.VERIF_FULLHT = "1"  \* C03: enumerate all 4^n pairs of extents (else all 3^n subset pairs and a sample of the others)
Prop == IOEnv.VERIF_PROP            \* the property being decided (selects the checks evaluated)

VARIABLE st
vars == <<P, st>>

DefaultP == MkParams(-3, 3, -1, 2, 1, 1, FALSE)
ParamsOf(r) ==
  IF "pp" \in DOMAIN r
  THEN MkParams(r.pp.wlo, r.pp.whi, r.pp.lo, r.pp.hi,
                IF r.nsyms > r.pp.minsyms THEN r.nsyms ELSE r.pp.minsyms,
                r.pp.nbs, r.pp.ext)
  ELSE DefaultP

\* ---------------------------------------------------------------- enumeration of interpretations
\* Atoms of a group are numbered 1..n (deterministic order, rotated by the seed); the first `cap` of
\* them form the core that is enumerated exhaustively, the rest is tried all-false / there-only /
\* here-and-there.
Zero == [n |-> 0, unk |-> 0, t |-> 0, f |-> 0, dis |-> 0, wit |-> <<>>, groups |-> 0, ident |-> 0, atoms |-> 0]
ZeroE == [n |-> 0, unk |-> 0, t |-> 0, f |-> 0, d1 |-> 0, w1 |-> <<>>, d2 |-> 0, w2 |-> <<>>]
\* a = value of what anthem produced, b = value of the reference
TallyE(acc, a, b, w) ==
  IF a = 1 \/ b = 1 THEN [acc EXCEPT !.n = @ + 1, !.unk = @ + 1]
  ELSE IF a = b THEN (IF b = 2 THEN [acc EXCEPT !.n = @ + 1, !.t = @ + 1] ELSE [acc EXCEPT !.n = @ + 1, !.f = @ + 1])
  ELSE IF a = 2 THEN [acc EXCEPT !.n = @ + 1, !.d1 = @ + 1, !.w1 = IF acc.d1 = 0 THEN w ELSE @]
  ELSE [acc EXCEPT !.n = @ + 1, !.d2 = @ + 1, !.w2 = IF acc.d2 = 0 THEN w ELSE @]
RECURSIVE Pow2(_)
Pow2(n) == IF n = 0 THEN 1 ELSE 2 * Pow2(n - 1)

\* value-coherent numbering: atoms over the first base value come first, then those that also use the second, ... so that a
\* capped core always contains ALL predicates over a sub-base of values (the rotation by the seed picks which values); with an
\* arbitrary order the few atoms that witness a difference are rarely enumerated together
ValueNumbering(atoms) ==
  LET vs == SetToSeq(BaseValues)
      m == Len(vs)
      rot == IF m = 0 THEN 0 ELSE Rot % m
      pos == TLCEval([v \in BaseValues |-> LET j == CHOOSE k \in 1..m : vs[k] = v IN ((j - 1 + m - rot) % m) + 1])
      rank == TLCEval([a \in atoms |-> IF Len(a[2]) = 0 THEN 0 ELSE CHOOSE x \in {pos[a[2][k]] : k \in DOMAIN a[2]} : \A y \in {pos[a[2][k]] : k \in DOMAIN a[2]} : x >= y])
      sq == SortSeq(SetToSeq(atoms), LAMBDA a, b : rank[a] < rank[b])
  IN [n |-> Len(sq), at |-> sq]
Numbering(atoms) == ValueNumbering(atoms)
UnIndex(S, nb) == {nb.at[j] : j \in S}
Indexer(atoms, nb) == [a \in atoms |-> CHOOSE j \in 1..nb.n : nb.at[j] = a]

\* all HT pairs over the numbered atoms of one group, as pairs of index sets
PairSpace(n, cap) ==
  LET c == IF n <= cap THEN n ELSE cap
      rest == (c + 1)..n
  IN [core |-> 1..c, rps |-> IF rest = {} THEN {<<{}, {}>>} ELSE {<<{}, {}>>, <<{}, rest>>, <<rest, rest>>}]

\* pointwise comparison of A (anthem) and B (reference) over the atoms of one group
EnumHT(A, B, atoms) ==
  LET nb == TLCEval(Numbering(atoms))
      ix == TLCEval(Indexer(atoms, nb))
      a == TLCEval(IndexTree(A, ix))
      b == TLCEval(IndexTree(B, ix))
      sp == PairSpace(nb.n, HTCap)
      StepH(acc, H, T) == TallyE(acc, PS2(a, H, T) \div 3, PS2(b, H, T) \div 3, [H |-> H, T |-> T])
      StepT(acc, Tc, rp) ==
        LET T == Tc \cup rp[2] IN
        IF PCI(a, T) = 0 /\ PCI(b, T) = 0            \* persistence: false at (T,T) => false at every (H,T)
        THEN LET m == Pow2(Cardinality(Tc)) IN [acc EXCEPT !.n = @ + m, !.f = @ + m]
        ELSE FoldSet(LAMBDA Hc, x : StepH(x, Hc \cup rp[1], T), acc, SUBSET Tc)
      res == FoldSet(LAMBDA rp, x : FoldSet(LAMBDA Tc, y : StepT(y, Tc, rp), x, SUBSET sp.core), ZeroE, sp.rps)
      back(w) == IF w = <<>> THEN <<>> ELSE [H |-> UnIndex(w.H, nb), T |-> UnIndex(w.T, nb)]
  IN [res EXCEPT !.w1 = back(@), !.w2 = back(@)]

\* some pair that makes the tree definitely true here (a "model"), if the explored space has one
ModelHT(A, atoms) ==
  LET nb == TLCEval(Numbering(atoms))
      ix == TLCEval(Indexer(atoms, nb))
      a == TLCEval(IndexTree(A, ix))
      sp == PairSpace(nb.n, HTCap)
      cands == {<<Hc \cup rp[1], Tc \cup rp[2]>> : rp \in sp.rps, Tc \in SUBSET sp.core, Hc \in SUBSET sp.core}
      good == {pr \in cands : pr[1] \subseteq pr[2] /\ PS2(a, pr[1], pr[2]) \div 3 = 2}
  IN IF good = {} THEN [ok |-> FALSE]
     ELSE LET pr == CHOOSE x \in good : TRUE IN [ok |-> TRUE, H |-> UnIndex(pr[1], nb), T |-> UnIndex(pr[2], nb)]

\* g1: what anthem produced; g2: reference.  Exact HT-equivalence by independent groups.
HTEquiv(g1, g2, extra) ==
  IF g1 = g2 THEN [Zero EXCEPT !.ident = 1, !.atoms = Cardinality(PAtoms(g2))]
  ELSE
  LET S1 == ConjOf(g1)
      S2 == ConjOf(g2)
      groups == Groups(S1 \cup S2)
      diff == {g \in groups : g.items \cap S1 # g.items \cap S2}
      cmp == TLCEval([g \in diff |-> EnumHT(AndOf(g.items \cap S1), AndOf(g.items \cap S2), g.atoms)])
      sum == FoldSet(LAMBDA g, acc : [acc EXCEPT !.n = @ + cmp[g].n, !.unk = @ + cmp[g].unk, !.t = @ + cmp[g].t,
                                                 !.f = @ + cmp[g].f, !.groups = @ + 1],
                     [Zero EXCEPT !.atoms = Cardinality(PAtoms(g2))], diff)
      c1 == {g \in diff : cmp[g].d1 > 0}      \* groups where anthem's side is true and the reference false
      c2 == {g \in diff : cmp[g].d2 > 0}
      \* extend a local witness of group g by models of the other groups of the side that must be true
      Extend(g, w, S) ==
        LET others == groups \ {g}
            ms == TLCEval([o \in others |-> IF o.items \cap S = {} THEN [ok |-> TRUE, H |-> {}, T |-> {}]
                                            ELSE ModelHT(AndOf(o.items \cap S), o.atoms)])
        IN IF \A o \in others : ms[o].ok
           THEN [ok |-> TRUE, H |-> w.H \cup UNION {ms[o].H : o \in others}, T |-> w.T \cup UNION {ms[o].T : o \in others}]
           ELSE [ok |-> FALSE]
      e1 == IF c1 = {} THEN [ok |-> FALSE] ELSE LET g == CHOOSE x \in c1 : TRUE IN Extend(g, cmp[g].w1, S1)
      e2 == IF c2 = {} THEN [ok |-> FALSE] ELSE LET g == CHOOSE x \in c2 : TRUE IN Extend(g, cmp[g].w2, S2)
  IN IF e1.ok THEN [sum EXCEPT !.dis = 1, !.wit = [H |-> e1.H, T |-> e1.T, anthem |-> "true", reference |-> "false", env |-> extra]]
     ELSE IF e2.ok THEN [sum EXCEPT !.dis = 1, !.wit = [H |-> e2.H, T |-> e2.T, anthem |-> "false", reference |-> "true", env |-> extra]]
     ELSE sum

\* ---------------------------------------------------------------- classical equivalence (same decomposition)
WorldSpace(n, cap) ==
  LET c == IF n <= cap THEN n ELSE cap
      rest == (c + 1)..n
  IN [core |-> 1..c, rps |-> IF rest = {} THEN {{}} ELSE {{}, rest}]
EnumCL(A, B, atoms) ==
  LET nb == TLCEval(Numbering(atoms))
      ix == TLCEval(Indexer(atoms, nb))
      a == TLCEval(IndexTree(A, ix))
      b == TLCEval(IndexTree(B, ix))
      sp == WorldSpace(nb.n, CLCap)
      res == FoldSet(LAMBDA rp, x : FoldSet(LAMBDA Tc, y : TallyE(y, PCI(a, Tc \cup rp), PCI(b, Tc \cup rp), [T |-> Tc \cup rp]),
                                            x, SUBSET sp.core), ZeroE, sp.rps)
      back(w) == IF w = <<>> THEN <<>> ELSE [T |-> UnIndex(w.T, nb)]
  IN [res EXCEPT !.w1 = back(@), !.w2 = back(@)]
ModelCL(A, atoms) ==
  LET nb == TLCEval(Numbering(atoms))
      ix == TLCEval(Indexer(atoms, nb))
      a == TLCEval(IndexTree(A, ix))
      sp == WorldSpace(nb.n, CLCap)
      good == {T \in {Tc \cup rp : rp \in sp.rps, Tc \in SUBSET sp.core} : PCI(a, T) = 2}
  IN IF good = {} THEN [ok |-> FALSE] ELSE [ok |-> TRUE, T |-> UnIndex(CHOOSE x \in good : TRUE, nb)]
CLEquiv(g1, g2, extra) ==
  IF g1 = g2 THEN [Zero EXCEPT !.ident = 1, !.atoms = Cardinality(PAtoms(g2))]
  ELSE
  LET S1 == ConjOf(g1)
      S2 == ConjOf(g2)
      groups == Groups(S1 \cup S2)
      diff == {g \in groups : g.items \cap S1 # g.items \cap S2}
      cmp == TLCEval([g \in diff |-> EnumCL(AndOf(g.items \cap S1), AndOf(g.items \cap S2), g.atoms)])
      sum == FoldSet(LAMBDA g, acc : [acc EXCEPT !.n = @ + cmp[g].n, !.unk = @ + cmp[g].unk, !.t = @ + cmp[g].t,
                                                 !.f = @ + cmp[g].f, !.groups = @ + 1],
                     [Zero EXCEPT !.atoms = Cardinality(PAtoms(g2))], diff)
      c1 == {g \in diff : cmp[g].d1 > 0}
      c2 == {g \in diff : cmp[g].d2 > 0}
      Extend(g, w, S) ==
        LET others == groups \ {g}
            ms == TLCEval([o \in others |-> IF o.items \cap S = {} THEN [ok |-> TRUE, T |-> {}]
                                            ELSE ModelCL(AndOf(o.items \cap S), o.atoms)])
        IN IF \A o \in others : ms[o].ok
           THEN [ok |-> TRUE, T |-> w.T \cup UNION {ms[o].T : o \in others}]
           ELSE [ok |-> FALSE]
      e1 == IF c1 = {} THEN [ok |-> FALSE] ELSE LET g == CHOOSE x \in c1 : TRUE IN Extend(g, cmp[g].w1, S1)
      e2 == IF c2 = {} THEN [ok |-> FALSE] ELSE LET g == CHOOSE x \in c2 : TRUE IN Extend(g, cmp[g].w2, S2)
  IN IF e1.ok THEN [sum EXCEPT !.dis = 1, !.wit = [I |-> e1.T, anthem |-> "true", reference |-> "false", env |-> extra]]
     ELSE IF e2.ok THEN [sum EXCEPT !.dis = 1, !.wit = [I |-> e2.T, anthem |-> "false", reference |-> "true", env |-> extra]]
     ELSE sum

MergeT(x, y) == [n |-> x.n + y.n, unk |-> x.unk + y.unk, t |-> x.t + y.t, f |-> x.f + y.f, dis |-> x.dis + y.dis,
                 wit |-> IF x.dis > 0 THEN x.wit ELSE y.wit, groups |-> x.groups + y.groups, ident |-> x.ident + y.ident,
                 atoms |-> x.atoms + y.atoms]

Verdict(tally) == IF tally.dis > 0 THEN "DISAGREE" ELSE "agree"
Out(r, check, tally, note) ==
  [id |-> r.id, check |-> check, v |-> Verdict(tally), n |-> tally.n, unk |-> tally.unk,
   t |-> tally.t, f |-> tally.f, dis |-> tally.dis, wit |-> tally.wit, groups |-> tally.groups,
   ident |-> tally.ident, atoms |-> tally.atoms, note |-> note]
Skip(r, check, why) == [id |-> r.id, check |-> check, v |-> "skip", n |-> 0, unk |-> 0, t |-> 0, f |-> 0,
                        dis |-> 0, wit |-> <<>>, groups |-> 0, ident |-> 0, atoms |-> 0, note |-> why]

OkT == [Zero EXCEPT !.n = 1, !.t = 1, !.ident = 1, !.atoms = 1]
BadT(w) == [Zero EXCEPT !.dis = 1, !.wit = w]

\* ---------------------------------------------------------------- kind "rule": C01 and C08
\* C01: Ground(tau*) =HT= tau-semantics of the rule.   C08: natural =HT= tau*, mu =HT= tau*.
EvalRule(r) ==
  LET gr == RuleGround(r.rule)
      gt == Ground(r.tau, EmptyEnv)
      hasNat == r.nat.k # "none"
      gn == IF hasNat THEN Ground(r.nat, EmptyEnv) ELSE TT
      \* mu is the natural translation of a regular rule and tau* otherwise: when anthem returned the very same tree it is not grounded again
      gm == IF r.mu = r.tau THEN gt ELSE IF hasNat /\ r.mu = r.nat THEN gn ELSE Ground(r.mu, EmptyEnv)
      muIsOne == r.mu = r.tau \/ (hasNat /\ r.mu = r.nat)
  IN IF Prop = "SELF"   \* machinery self-check (MC_Eval of the plan): the scheduled evaluator against the naive one, on anthem's own output
     THEN IF "naive" \in DOMAIN r
          THEN <<Out(r, "SELF.scheduled_vs_naive", HTEquiv(gt, Ground0(r.tau, EmptyEnv), <<>>), "")>>
          \* MC_Sem: the reference translation (Translations.tla) against the reference semantics (MiniGringo.tla), and anthem against it
          ELSE LET gref == Ground(RefTau(r.rule), EmptyEnv)
                   regular == RegularRule(r.rule)
                   gnat == IF regular THEN Ground(RefNatural(r.rule), EmptyEnv) ELSE TT
               IN <<Out(r, "SELF.reference_translation_vs_reference_semantics", HTEquiv(gref, gr, <<>>), ""),
                    Out(r, "SELF.anthem_vs_reference_translation", HTEquiv(gt, gref, <<>>), "")>>
                  \o (IF regular THEN <<Out(r, "SELF.reference_natural_vs_reference_semantics", HTEquiv(gnat, gr, <<>>), "")>> ELSE <<>>)
                  \o (IF regular /\ hasNat THEN <<Out(r, "SELF.anthem_vs_reference_natural", HTEquiv(gn, gnat, <<>>), "")>> ELSE <<>>)
                  \o <<Out(r, "SELF.natural_defined_iff_regular", IF regular = hasNat THEN OkT ELSE BadT([note |-> "anthem and the reference disagree on regularity"]), "")>>
     ELSE IF Prop = "C01" THEN <<Out(r, "C01.tau_vs_semantics", HTEquiv(gt, gr, <<>>), "")>> \o
          \* texts printed by the reference grammar (Syntax.tla) carry the tree they mean: the parser must have returned it
          (IF "exp" \in DOMAIN r
           THEN <<Out(r, "C01.text_parses_to_reference_tree",
                      IF r.rule.head.k = "basic" /\ Len(r.rule.head.a.args) = 1 /\ r.rule.head.a.args[1] = r.exp THEN OkT
                      ELSE BadT([note |-> "the parser groups the head term differently from the mini-gringo grammar", reference |-> r.exp]), "")>>
           ELSE <<>>) \o
          (IF "exprule" \in DOMAIN r
           THEN <<Out(r, "C01.text_parses_to_reference_tree",
                      IF r.rule.head = r.exprule.head /\ r.rule.body = r.exprule.body THEN OkT
                      ELSE BadT([note |-> "the parser reads the rule differently from the mini-gringo grammar (head kind, sign of a literal, relation, separator)",
                                 reference |-> r.exprule]), "")>>
           ELSE <<>>)
     ELSE <<Out(r, "C08.mu_vs_tau", HTEquiv(gm, gt, <<>>), ""),
            Out(r, "C08.mu_is_natural_or_tau_star", IF muIsOne THEN OkT ELSE BadT([note |-> "mu returned neither the natural translation nor tau*"]), "")>>
          \o (IF FullHT THEN <<Out(r, "C08.mu_vs_semantics", HTEquiv(gm, gr, <<>>), "")>> ELSE <<>>)
          \o (IF hasNat THEN <<Out(r, "C08.natural_vs_tau", HTEquiv(gn, gt, <<>>), "")>>
                               \o (IF FullHT THEN <<Out(r, "C08.natural_vs_semantics", HTEquiv(gn, gr, <<>>), "")>> ELSE <<>>)
              ELSE <<Skip(r, "C08.natural_vs_tau", "not regular")>>)

\* ---------------------------------------------------------------- formulas with free variables
\* all assignments of the free variables / placeholders of the formulas (as environments)
FreeKeys(fs) == UNION {FV(fs[i]) : i \in DOMAIN fs}
AllEnvs(keys) == Envs(SetToSeq(keys))
\* fold a per-environment comparison over all environments
OverEnvs(keys, Cmp(_)) ==
  FoldSet(LAMBDA e, acc : IF acc.dis > 0 THEN acc ELSE MergeT(acc, Cmp(e)), Zero, AllEnvs(keys))

\* ---------------------------------------------------------------- kind "equiv": C07 (and C15/C06 helpers)
\* r.f is the input formula; r.outs[i] = [logic |-> "ht" | "cl", out |-> formula, tags |-> ...]
EvalEquivOne(r, o) ==
  LET keys == FreeKeys(<<r.f, o.out>>)
      newfree == FV(o.out) \ FV(r.f)
      tally == OverEnvs(keys, LAMBDA e : IF o.logic = "ht" THEN HTEquiv(Ground(o.out, e), Ground(r.f, e), e)
                                         ELSE CLEquiv(Ground(o.out, e), Ground(r.f, e), e))
  IN IF newfree # {}
     THEN Out(r, Prop \o ".no_new_free_variables",
              [Zero EXCEPT !.dis = 1, !.wit = [note |-> "result has free variables the input lacks", vars |-> newfree]], o.tags)
     ELSE Out(r, Prop \o ".equivalent_" \o o.logic, tally, o.tags)
EvalEquiv(r) == [i \in DOMAIN r.outs |-> EvalEquivOne(r, r.outs[i])]

\* ---------------------------------------------------------------- kind "gamma": C05
\* (H,T) |= F  iff  the classical interpretation h(H) \cup t(T) satisfies gamma(F); distinct copies.
PrefixAtoms(S, pfx) == {<<pfx \o a[1], a[2]>> : a \in S}
RECURSIVE ArgTuples(_)
ArgTuples(n) == IF n = 0 THEN {<<>>} ELSE {<<v>> \o tp : v \in BaseValues, tp \in ArgTuples(n - 1)}
GammaEnum(gF, gG, preds, extra) ==
  LET all == UNION {{<<preds[i].p, tp>> : tp \in ArgTuples(preds[i].n)} : i \in DOMAIN preds}
      gat == PAtoms(gG)
      rel == {a \in all : a \in PAtoms(gF) \/ <<"h" \o a[1], a[2]>> \in gat \/ <<"t" \o a[1], a[2]>> \in gat}
      nb == TLCEval(Numbering(rel))
      sp == PairSpace(nb.n, HTCap)
      res == FoldSet(LAMBDA rp, x :
               FoldSet(LAMBDA Tc, y :
                 FoldSet(LAMBDA Hc, z :
                           LET H == UnIndex(Hc \cup rp[1], nb)
                               T == UnIndex(Tc \cup rp[2], nb)
                           IN TallyE(z, PCI(gG, PrefixAtoms(H, "h") \cup PrefixAtoms(T, "t")), PS2(gF, H, T) \div 3,
                                     [H |-> H, T |-> T]),
                         y, SUBSET Tc),
                 x, SUBSET sp.core), ZeroE, sp.rps)
  IN [n |-> res.n, unk |-> res.unk, t |-> res.t, f |-> res.f, dis |-> res.d1 + res.d2,
      wit |-> IF res.d1 > 0 THEN [H |-> res.w1.H, T |-> res.w1.T, anthem |-> "gamma(F) true", reference |-> "F false", env |-> extra]
              ELSE IF res.d2 > 0 THEN [H |-> res.w2.H, T |-> res.w2.T, anthem |-> "gamma(F) false", reference |-> "F true", env |-> extra]
              ELSE <<>>,
      groups |-> 1, ident |-> 0, atoms |-> nb.n]
EvalGamma(r) ==
  IF Prop = "C02"     \* specifications, user guides and outlines are TEXT: the reference grammar fixes the tree a text means
  THEN IF "exp" \in DOMAIN r
       THEN <<Out(r, "C02.text_parses_to_reference_tree",
                  IF r.f = r.exp THEN OkT ELSE BadT([note |-> "the parser groups the formula differently from the sigma_0 grammar", reference |-> r.exp]), "")>>
       ELSE <<Skip(r, "C02.text_parses_to_reference_tree", "no reference tree")>>
  ELSE IF Prop = "SELF"   \* design check of the reference gamma (Translations.tla) and anthem against it
  THEN LET keys == FreeKeys(<<r.f, r.g>>)
           ref == RefGamma(r.f)
       IN <<Out(r, "SELF.reference_gamma_reduces_ht_to_classical", OverEnvs(keys, LAMBDA e : GammaEnum(Ground(r.f, e), Ground(ref, e), r.preds, e)), ""),
            Out(r, "SELF.anthem_vs_reference_gamma", OverEnvs(keys, LAMBDA e : CLEquiv(Ground(r.g, e), Ground(ref, e), e)), "")>>
  ELSE
  LET keys == FreeKeys(<<r.f, r.g>>)
      tally == OverEnvs(keys, LAMBDA e : GammaEnum(Ground(r.f, e), Ground(r.g, e), r.preds, e))
      names == {<<"h" \o r.preds[i].p, r.preds[i].n>> : i \in DOMAIN r.preds} \cup {<<"t" \o r.preds[i].p, r.preds[i].n>> : i \in DOMAIN r.preds}
      distinct == Cardinality(names) = 2 * Cardinality({<<r.preds[i].p, r.preds[i].n>> : i \in DOMAIN r.preds})
      used == {<<r.gpreds[i].p, r.gpreds[i].n>> : i \in DOMAIN r.gpreds}
  IN <<Out(r, "C05.gamma_reduces_ht_to_classical", tally, ""),
       Out(r, "C05.distinct_copies",
           IF distinct /\ used \subseteq names THEN [Zero EXCEPT !.n = 1, !.t = 1, !.ident = 1, !.atoms = 1]
           ELSE [Zero EXCEPT !.dis = 1, !.wit = [note |-> "copies are not the distinct h-/t-prefixed predicates", used |-> used]], "")>>

\* ---------------------------------------------------------------- kind "subst": C17
\* Sat(F[x := t], e) = Sat(F, e[x |-> value of t under e]); free variables as specified.
EvalSubst(r) ==
  LET xkey == <<r.var.n, r.var.s>>
      tv == TVars(r.term)
      keys == (FV(r.f) \ {xkey}) \cup tv \cup FV(r.out)
      tally == OverEnvs(keys, LAMBDA e :
                 LET val == TV(r.term, e)
                 IN HTEquiv(Ground(r.out, e), Ground(r.f, (xkey :> val) @@ e), e))
      expectFV == (FV(r.f) \ {xkey}) \cup (IF xkey \in FV(r.f) THEN tv ELSE {})
  IN <<Out(r, "C17.substitution_preserves_meaning", tally, ""),
       Out(r, "C17.free_variables",
           IF FV(r.out) = expectFV THEN [Zero EXCEPT !.n = 1, !.t = 1, !.ident = 1, !.atoms = 1]
           ELSE [Zero EXCEPT !.dis = 1, !.wit = [note |-> "free variables differ", got |-> FV(r.out), expected |-> expectFV]], "")>>


\* ---------------------------------------------------------------- kind "completion" / "completable": C04
\* (a) for a tight program: the classical models of anthem's completion(tau*(P), inputs) over the base are
\*     exactly the stable models of P with the model's own input facts; every non-input predicate defined.
\* (b) a theory showing one of the four listed defects is refused; an accepted theory's completion is
\*     classically equivalent to the reference completion built here from the definition.
RECURSIVE GroundAll(_, _)
GroundAll(fs, env) == IF fs = <<>> THEN TT
                      ELSE LET g == Ground(Head(fs), env) IN IF g.k = "F" THEN FF ELSE PAnd(g, GroundAll(Tail(fs), env))
PredSet(ps) == {<<ps[k].p, ps[k].n>> : k \in DOMAIN ps}

\* stable models with indexed atoms: T and the input atoms are sets of indices
StableIdx(g, T, inputIdx) ==
  LET c == PCI(g, T) IN
  IF c = 0 THEN 0
  ELSE LET fixed == T \cap inputIdx
           free == T \ fixed
           below == {PS2(g, fixed \cup S, T) \div 3 : S \in (SUBSET free) \ {free}}
       IN IF 2 \in below THEN 0 ELSE IF c = 1 \/ 1 \in below THEN 1 ELSE 2

StableEnum(gProg, gComp, inputs, extra) ==
  LET atoms == PAtoms(gProg) \cup PAtoms(gComp)
      nb == TLCEval(ValueNumbering(atoms))
      ix == TLCEval(Indexer(atoms, nb))
      a == TLCEval(IndexTree(gComp, ix))
      b == TLCEval(IndexTree(gProg, ix))
      core == 1..(IF nb.n <= CLCap THEN nb.n ELSE CLCap)
      inputIdx == {k \in 1..nb.n : <<nb.at[k][1], Len(nb.at[k][2])>> \in inputs}
      res == FoldSet(LAMBDA T, acc : TallyE(acc, PCI(a, T), StableIdx(b, T, inputIdx), [T |-> T]), ZeroE, SUBSET core)
  IN [n |-> res.n, unk |-> res.unk, t |-> res.t, f |-> res.f, dis |-> res.d1 + res.d2,
      wit |-> IF res.d1 > 0 THEN [I |-> UnIndex(res.w1.T, nb), anthem |-> "model of the completion", reference |-> "not a stable model", env |-> extra]
              ELSE IF res.d2 > 0 THEN [I |-> UnIndex(res.w2.T, nb), anthem |-> "not a model of the completion", reference |-> "stable model", env |-> extra]
              ELSE <<>>,
      groups |-> 1, ident |-> 0, atoms |-> nb.n]

\* --- the reference completion, built on trees from the definition (Appendix B of the external-equivalence paper)
StripAll(f) == IF f.k = "forall" THEN f.f ELSE f
RuleShaped(f) == StripAll(f).k \in {"imp", "rimp"}
HeadOfF(f) == LET x == StripAll(f) IN IF x.k = "imp" THEN x.r ELSE x.l
BodyOfF(f) == LET x == StripAll(f) IN IF x.k = "imp" THEN x.l ELSE x.r
VarKeyOf(t) == <<t.v, t.s>>
AllVarArgs(h) == \A k \in DOMAIN h.args : h.args[k].k = "var"
DistinctArgs(h) == \A k, m \in DOMAIN h.args : k # m => h.args[k] # h.args[m]
FreeVarKeys(f) == {key \in FV(f) : ~IsFcKey(key)}
ReasonFree(f) == FreeVarKeys(f) # {}
ReasonNonVar(f) == RuleShaped(f) /\ HeadOfF(f).k = "atom" /\ ~AllVarArgs(HeadOfF(f))
ReasonRepeat(f) == RuleShaped(f) /\ HeadOfF(f).k = "atom" /\ AllVarArgs(HeadOfF(f)) /\ ~DistinctArgs(HeadOfF(f))
DefFormulas(th) == {k \in DOMAIN th : RuleShaped(th[k]) /\ HeadOfF(th[k]).k = "atom"}
ReasonMismatch(th) == \E k, m \in DefFormulas(th) :
                         LET h1 == HeadOfF(th[k]) h2 == HeadOfF(th[m])
                         IN h1.p = h2.p /\ Len(h1.args) = Len(h2.args) /\ h1 # h2
HasListedReason(th) == ReasonMismatch(th) \/ \E k \in DOMAIN th : ReasonFree(th[k]) \/ ReasonNonVar(th[k]) \/ ReasonRepeat(th[k])
InFragment(th) == \A k \in DOMAIN th : RuleShaped(th[k]) /\ HeadOfF(th[k]).k \in {"atom", "false"}
KeysToVars(S) == LET sq == SetToSeq(S) IN [k \in DOMAIN sq |-> [n |-> sq[k][1], s |-> sq[k][2]]]
Quant(q, S, f) == IF S = {} THEN f ELSE [k |-> q, vars |-> KeysToVars(S), f |-> f]
RECURSIVE OrAll(_)
OrAll(fs) == IF fs = <<>> THEN [k |-> "false"] ELSE IF Len(fs) = 1 THEN fs[1] ELSE [k |-> "or", l |-> fs[1], r |-> OrAll(Tail(fs))]
RefCompletion(th, tpreds, inputs) ==
  LET defs == DefFormulas(th)
      heads == {HeadOfF(th[k]) : k \in defs}
      hv(h) == {VarKeyOf(h.args[k]) : k \in DOMAIN h.args}
      bodies(h) == LET ks == SetToSortSeq({k \in defs : HeadOfF(th[k]) = h}, <)
                   IN [k \in DOMAIN ks |-> LET bd == BodyOfF(th[ks[k]]) IN Quant("exists", FreeVarKeys(bd) \ hv(h), bd)]
      defined == {<<h.p, Len(h.args)>> : h \in heads}
      completed == {Quant("forall", hv(h), [k |-> "iff", l |-> h, r |-> OrAll(bodies(h))])
                      : h \in {x \in heads : <<x.p, Len(x.args)>> \notin inputs}}
      empty == {LET vs == [k \in 1..pr[2] |-> [k |-> "var", v |-> "V" \o ToString(k), s |-> "g"]]
                IN Quant("forall", {VarKeyOf(vs[k]) : k \in DOMAIN vs}, [k |-> "iff", l |-> [k |-> "atom", p |-> pr[1], args |-> vs], r |-> [k |-> "false"]])
                  : pr \in (tpreds \ defined) \ inputs}
      constraints == {LET f == th[k] IN Quant("forall", FreeVarKeys(f), f) : k \in {m \in DOMAIN th : RuleShaped(th[m]) /\ HeadOfF(th[m]).k = "false"}}
  IN SetToSeq(constraints \cup completed \cup empty)

\* every non-input predicate heads exactly one completed definition of anthem's output
DefinesPred(f, pr) == LET x == StripAll(f) IN x.k = "iff" /\ x.l.k = "atom" /\ x.l.p = pr[1] /\ Len(x.l.args) = pr[2]
DefinedOnce(comp, tpreds, inputs) ==
  \A pr \in tpreds \ inputs : Cardinality({k \in DOMAIN comp : DefinesPred(comp[k], pr)}) = 1

EvalCompletion(r) ==
  LET inputs == PredSet(r.inputs)
      tpreds == PredSet(r.preds)
      heads == PredSet(r.heads)
  IN IF ~r.tight THEN <<Skip(r, "C04.completion_models_are_stable_models", "program is not tight")>>
     ELSE IF inputs \cap heads # {} THEN <<Skip(r, "C04.completion_models_are_stable_models", "an input predicate heads a rule")>>
     ELSE IF ~r.completed
          THEN <<Out(r, "C04.tight_program_completed", BadT([note |-> "completion refused the tau* theory of a tight program"]), "")>>
     ELSE LET gp == ProgramGround(r.rules)
              gc == GroundAll(r.completion, EmptyEnv)
              gr == GroundAll(RefCompletion(r.tau, tpreds, inputs), EmptyEnv)
          IN <<Out(r, "C04.completion_models_are_stable_models", StableEnum(gp, gc, inputs, <<>>), ""),
               Out(r, "C04.completion_vs_reference_completion", CLEquiv(gc, gr, <<>>), ""),
               Out(r, "C04.every_noninput_predicate_defined_once",
                   IF DefinedOnce(r.completion, tpreds, inputs) THEN OkT
                   ELSE BadT([note |-> "a non-input predicate lacks its completed definition (or has several)"]), "")>>

EvalCompletable(r) ==
  LET inputs == PredSet(r.inputs)
      tpreds == PredSet(r.preds)
      th == r.theory
  IN IF HasListedReason(th)
     THEN <<Out(r, "C04.noncompletable_theory_refused",
                IF r.completed THEN BadT([note |-> "a theory with a listed defect (free variable / non-variable or repeated head argument / mismatched heads) was completed"])
                ELSE OkT, "")>>
     ELSE IF ~InFragment(th) THEN <<Skip(r, "C04.noncompletable_theory_refused", "outside the rule fragment, no listed defect")>>
     ELSE IF ~r.completed
          THEN <<Out(r, "C04.completable_theory_completed", BadT([note |-> "a theory of closed rule-shaped formulas with matching distinct-variable heads was refused"]), "")>>
     ELSE <<Out(r, "C04.completable_theory_completed", OkT, ""),
            Out(r, "C04.completion_vs_reference_completion",
                CLEquiv(GroundAll(r.completion, EmptyEnv), GroundAll(RefCompletion(th, tpreds, inputs), EmptyEnv), <<>>), ""),
            Out(r, "C04.every_noninput_predicate_defined_once",
                IF DefinedOnce(r.completion, tpreds, inputs) THEN OkT
                ELSE BadT([note |-> "a non-input predicate lacks its completed definition (or has several)"]), "")>>

\* ---------------------------------------------------------------- kind "strong": C03 (and the strong half of C19)
\* An interpretation of the h-/t-copies is a pair (H, T) of arbitrary sets of base atoms (H need not be below T).
\* A family (the problems emitted under one flag combination) is refuted forward by (H, T) iff some forward
\* problem has all axioms true and its conjecture false.  C03: that happens exactly when H \subseteq T and
\* (H, T) is an HT-model of the left program but not of the right one.  C19: all families agree.
BaseAtomsOf(preds) == UNION {{<<preds[k].p, tp>> : tp \in ArgTuples(preds[k].n)} : k \in DOMAIN preds}
Min3(a, b) == IF a < b THEN a ELSE b
Max3(a, b) == IF a > b THEN a ELSE b
IsFwd(name) == SubSeq(name, 1, 7) = "forward"
\* distinct formulas of all families, grounded once
AllFormulas(fams) == UNION {UNION {{pr.formulas[k].f : k \in DOMAIN pr.formulas} : pr \in Range(fm.problems)} : fm \in Range(fams)}
StrongEval(r, fams, gL, gR) ==
  LET base == BaseAtomsOf(r.preds)
      nb == TLCEval(ValueNumbering(base))
      df == TLCEval(SetToSeq(AllFormulas(fams)))
      \* atoms as integers: base atom k is k in the reference groundings; its h-copy is k, its t-copy nb.n + k in the problems
      ixb == TLCEval(Indexer(base, nb))
      ixp == TLCEval([a \in PrefixAtoms(base, "h") \cup PrefixAtoms(base, "t") |->
                        LET k == CHOOSE j \in 1..nb.n : nb.at[j][2] = a[2] /\ (a[1] = "h" \o nb.at[j][1] \/ a[1] = "t" \o nb.at[j][1])
                                                         /\ Len(a[1]) = Len(nb.at[j][1]) + 1
                        IN IF a[1] = "h" \o nb.at[k][1] THEN k ELSE nb.n + k])
      known(g) == PAtoms(g) \subseteq DOMAIN ixp
      gs == TLCEval([k \in DOMAIN df |-> LET g == Ground(df[k], EmptyEnv) IN IF known(g) THEN IndexTree(g, ixp) ELSE UU])
      gLi == TLCEval(IndexTree(gL, ixb))
      gRi == TLCEval(IndexTree(gR, ixb))
      ixf(f) == CHOOSE k \in DOMAIN df : df[k] = f
      \* per family, per problem: direction, indices of axioms, indices of conjectures
      shape == TLCEval([i \in DOMAIN fams |->
                 [j \in DOMAIN fams[i].problems |->
                    LET pr == fams[i].problems[j] IN
                    [fwd |-> IsFwd(pr.name),
                     ax |-> {ixf(pr.formulas[k].f) : k \in {m \in DOMAIN pr.formulas : ~pr.formulas[m].conj}},
                     cj |-> {ixf(pr.formulas[k].f) : k \in {m \in DOMAIN pr.formulas : pr.formulas[m].conj}}]]])
      core == 1..(IF nb.n <= HTCap THEN nb.n ELSE HTCap)
      hasDir(i, fwd) == \E j \in DOMAIN shape[i] : shape[i][j].fwd = fwd
      \* value (0 / 1 / 2) of "family i is refuted in direction fwd" given the formula values fv
      FamVal(i, fwd, fv) ==
        LET ProbVal(pb) == Min3(FoldSet(LAMBDA k, acc : Min3(acc, fv[k]), 2, pb.ax), 2 - FoldSet(LAMBDA k, acc : Min3(acc, fv[k]), 2, pb.cj))
        IN FoldSet(LAMBDA j, acc : IF shape[i][j].fwd = fwd THEN Max3(acc, ProbVal(shape[i][j])) ELSE acc, 0, DOMAIN shape[i])
      \* tallies: one per (family, direction) for C03, one per direction for C19
      keys == {<<i, d>> : i \in DOMAIN fams, d \in BOOLEAN}
      live == TLCEval({ky \in keys : hasDir(ky[1], ky[2])})
      Step(acc, Hc, Tc) ==
        LET I == Hc \cup {nb.n + k : k \in Tc}
            fv == TLCEval([k \in DOMAIN gs |-> PCI(gs[k], I)])
            sub == Hc \subseteq Tc
            hl == IF sub THEN PS2(gLi, Hc, Tc) \div 3 ELSE 0
            hr == IF sub THEN PS2(gRi, Hc, Tc) \div 3 ELSE 0
            oracle(d) == IF ~sub THEN 0 ELSE IF d THEN Min3(hl, 2 - hr) ELSE Min3(hr, 2 - hl)
            vals == TLCEval([ky \in live |-> FamVal(ky[1], ky[2], fv)])
            w == [Ih |-> Hc, It |-> Tc]
            c19(d) == LET def == {vals[ky] : ky \in {x \in live : x[2] = d}} \ {1}
                      IN IF def = {} THEN <<1, 1>> ELSE IF def = {0, 2} THEN <<2, 0>> ELSE <<CHOOSE x \in def : TRUE, CHOOSE x \in def : TRUE>>
        IN [fam |-> [ky \in keys |-> IF ky \in live THEN TallyE(acc.fam[ky], vals[ky], oracle(ky[2]), w) ELSE acc.fam[ky]],
            c19 |-> [d \in BOOLEAN |-> TallyE(acc.c19[d], c19(d)[1], c19(d)[2], w)]]
      zero == [fam |-> [ky \in keys |-> ZeroE], c19 |-> [d \in BOOLEAN |-> ZeroE]]
      \* all pairs with H below T; of the others either all (thorough) or those where a single atom is here but not there
      below == {<<Hc, Tc>> : Hc \in SUBSET core, Tc \in SUBSET core}
      pairs == IF FullHT THEN below
               ELSE {pr \in below : pr[1] \subseteq pr[2]}
                    \cup UNION {{<<Tc \cup {k}, Tc>>, <<{k}, Tc>>} : k \in core, Tc \in SUBSET core}
      res == FoldSet(LAMBDA pr, a1 : Step(a1, pr[1], pr[2]), zero, pairs)
      Fin(e, what1, what2) ==
        [n |-> e.n, unk |-> e.unk, t |-> e.t, f |-> e.f, dis |-> e.d1 + e.d2,
         wit |-> IF e.d1 > 0 THEN [Ih |-> UnIndex(e.w1.Ih, nb), It |-> UnIndex(e.w1.It, nb), anthem |-> what1, reference |-> what2]
                 ELSE IF e.d2 > 0 THEN [Ih |-> UnIndex(e.w2.Ih, nb), It |-> UnIndex(e.w2.It, nb), anthem |-> what2, reference |-> what1] ELSE <<>>,
         groups |-> 1, ident |-> 0, atoms |-> nb.n]
      DirName(d) == IF d THEN "forward" ELSE "backward"
      famOuts == [i \in DOMAIN fams |->
                    (IF hasDir(i, TRUE) THEN <<Out(r, "C03.forward_refuted_iff_left_not_right",
                                                   Fin(res.fam[<<i, TRUE>>], "a forward problem is refuted", "not (H below T, HT-model of left, not of right)"),
                                                   ToString(fams[i].flags))>> ELSE <<>>)
                    \o (IF hasDir(i, FALSE) THEN <<Out(r, "C03.backward_refuted_iff_right_not_left",
                                                       Fin(res.fam[<<i, FALSE>>], "a backward problem is refuted", "not (H below T, HT-model of right, not of left)"),
                                                       ToString(fams[i].flags))>> ELSE <<>>)]
  IN FlattenSeq(famOuts)
     \o <<Out(r, "C19.strong_families_agree_forward", Fin(res.c19[TRUE], "refuted in one family", "not refuted in another"), ""),
          Out(r, "C19.strong_families_agree_backward", Fin(res.c19[FALSE], "refuted in one family", "not refuted in another"), "")>>
EvalStrong(r) ==
  LET fams == SelectSeq(r.families, LAMBDA fm : "problems" \in DOMAIN fm)
  IN IF fams = <<>> THEN <<Skip(r, "C03.forward_refuted_iff_left_not_right", "no family")>>
     ELSE StrongEval(r, fams, ProgramGround(r.left), ProgramGround(r.right))

\* ---------------------------------------------------------------- kind "external": C02 (and the external half of C19)
\* J ranges over the classical interpretations of all predicates of the task (public, left-private, renamed
\* right-private) over the base, ph over the placeholder valuations.  A family is refuted forward by (J, ph) iff
\* some forward problem has all axioms true and its conjecture false.  C02:  that happens exactly when
\*    the user-guide assumptions hold, the left side admits J (a stable model of the left program with J's input
\*    facts; or, for a specification, its universal/forward assumptions and specs hold), J's right-private part is
\*    the one the right program determines, and J (right vocabulary) is NOT a stable model of the right program;
\* and symmetrically backward.  Stable models and "determined private part" are computed from the reference
\* grounding of the RULES (MiniGringo.tla), never from any completion.
PredsOf(ps) == {<<ps[k].p, ps[k].n>> : k \in DOMAIN ps}
AtomPred(a) == <<a[1], Len(a[2])>>
AtomsOver(S) == UNION {{<<pr[1], tp>> : tp \in ArgTuples(pr[2])} : pr \in S}
IsPrivHead(rule, priv) == rule.head.k # "falsity" /\ <<rule.head.a.p, Len(rule.head.a.args)>> \in priv
AndSeq3(vals) == IF 0 \in vals THEN 0 ELSE IF 1 \in vals THEN 1 ELSE 2
PhValues(sort) == IF sort = "i" THEN {CInt(n) : n \in P.lo..P.hi}
                  ELSE IF sort = "s" THEN {v \in BaseValues : IsSym(v)} ELSE BaseValues
RECURSIVE PhAssignments(_)
PhAssignments(phs) ==   \* set of sequences of values, one per placeholder
  IF phs = <<>> THEN {<<>>} ELSE {<<v>> \o rest : v \in PhValues(Head(phs).s), rest \in PhAssignments(Tail(phs))}

ExternalEval(r, fams) ==
  LET pub == PredsOf(r.inputs) \cup PredsOf(r.outputs)
      inp == PredsOf(r.inputs)
      lpriv == PredsOf(r.lpreds) \ pub
      rpriv == PredsOf(r.rpreds) \ pub
      clash == lpriv \cap rpriv
      Ren(q) == IF q \in clash THEN <<q[1] \o "_p", q[2]>> ELSE q
      rprivRen == {Ren(q) : q \in rpriv}
      allAtoms == AtomsOver(pub \cup lpriv \cup rprivRen)
      nb == TLCEval(ValueNumbering(allAtoms))
      ix == TLCEval(Indexer(allAtoms, nb))
      \* atoms of the right program are read through the renaming: aux(v) of the program is aux_p(v) of the interpretation
      ixR == TLCEval([a \in AtomsOver(pub \cup rpriv) |-> ix[<<Ren(AtomPred(a))[1], a[2]>>]])
      \* "on that side's vocabulary": the predicates occurring on that side plus the inputs (a public predicate that a
      \* side does not mention is left unconstrained by that side: anthem emits no definition for it, see DESIGN 7.0)
      leftIdx == TLCEval({k \in 1..nb.n : AtomPred(nb.at[k]) \in PredsOf(r.lpreds) \cup inp})
      rightIdx == TLCEval({k \in 1..nb.n : AtomPred(nb.at[k]) \in {Ren(q) : q \in PredsOf(r.rpreds)} \cup inp})
      inputIdx == TLCEval({k \in 1..nb.n : AtomPred(nb.at[k]) \in inp})
      lprivIdx == TLCEval({k \in 1..nb.n : AtomPred(nb.at[k]) \in lpriv})
      rprivIdx == TLCEval({ixR[a] : a \in AtomsOver(rpriv)})
      IdxL(g) == IF PAtoms(g) \subseteq DOMAIN ix THEN IndexTree(g, ix) ELSE UU
      IdxR(g) == IF PAtoms(g) \subseteq DOMAIN ixR THEN IndexTree(g, ixR) ELSE UU
      core == 1..(IF nb.n <= CLCap THEN nb.n ELSE CLCap)
      df == TLCEval(SetToSeq(AllFormulas(fams)))
      ixf(f) == CHOOSE k \in DOMAIN df : df[k] = f
      shape == TLCEval([i \in DOMAIN fams |->
                 [j \in DOMAIN fams[i].problems |->
                    LET pr == fams[i].problems[j] IN
                    [fwd |-> IsFwd(pr.name),
                     ax |-> {ixf(pr.formulas[k].f) : k \in {m \in DOMAIN pr.formulas : ~pr.formulas[m].conj}},
                     cj |-> {ixf(pr.formulas[k].f) : k \in {m \in DOMAIN pr.formulas : pr.formulas[m].conj}}]]])
      hasDir(i, fwd) == \E j \in DOMAIN shape[i] : shape[i][j].fwd = fwd
      keys == {<<i, d>> : i \in DOMAIN fams, d \in BOOLEAN}
      \* a direction is judged when the flags ask for it (a family without any problem of that direction refutes nothing)
      wanted(i, fwd) == fams[i].flags.direction = "universal" \/ (fams[i].flags.direction = "forward") = fwd
      live == TLCEval({ky \in keys : wanted(ky[1], ky[2])})
      FamVal(i, fwd, fv) ==
        LET ProbVal(pb) == Min3(FoldSet(LAMBDA k, acc : Min3(acc, fv[k]), 2, pb.ax), 2 - FoldSet(LAMBDA k, acc : Min3(acc, fv[k]), 2, pb.cj))
        IN FoldSet(LAMBDA j, acc : IF shape[i][j].fwd = fwd THEN Max3(acc, ProbVal(shape[i][j])) ELSE acc, 0, DOMAIN shape[i])
      ugForms == SelectSeq(r.ug, LAMBDA e : e.k = "formula" /\ e.a.role = "assumption")
      specIdx(role, dirs) == IF r.left_is_program THEN {} ELSE {m \in DOMAIN r.left : r.left[m].role = role /\ r.left[m].dir \in dirs}
      sAF == TLCEval(specIdx("assumption", {"universal", "forward"}))
      sAU == TLCEval(specIdx("assumption", {"universal"}))
      sSF == TLCEval(specIdx("spec", {"universal", "forward"}))
      sSB == TLCEval(specIdx("spec", {"universal", "backward"}))
      \* everything that depends on the placeholder valuation but not on the interpretation
      Prepared(pv) ==
        LET envF == [key \in {<<r.placeholders[k].c, "ph">> : k \in DOMAIN r.placeholders}
                              \cup {<<r.placeholders[k].c, "f" \o r.placeholders[k].s>> : k \in DOMAIN r.placeholders} |->
                        pv[CHOOSE k \in DOMAIN r.placeholders : r.placeholders[k].c = key[1]]]
            sgP == [key \in {"#" \o r.placeholders[k].c : k \in DOMAIN r.placeholders} |->
                        pv[CHOOSE k \in DOMAIN r.placeholders : "#" \o r.placeholders[k].c = key]]
            \* anthem's OUTPUT formulas carry placeholders as function constants only: a symbolic constant that still bears the name
            \* of a placeholder there is an ordinary symbol (reading it as the placeholder would hide a missing replacement)
            envOut == [key \in {ky \in DOMAIN envF : ky[2] # "ph"} |-> envF[key]]
        IN [gs |-> TLCEval([k \in DOMAIN df |-> IdxL(Ground(df[k], envOut))]),
            assm |-> TLCEval([k \in DOMAIN ugForms |-> IdxL(Ground(ugForms[k].a.f, envF))]),
            gR |-> IdxR(ProgramGroundPh(r.right, sgP)),
            gRP |-> IdxR(ProgramGroundPh(SelectSeq(r.right, LAMBDA x : IsPrivHead(x, rpriv)), sgP)),
            suppR |-> TLCEval([a \in AtomsOver(rpriv) |-> [at |-> ixR[a], g |-> IdxR(Supp(r.right, a, sgP))]]),
            gL |-> IF r.left_is_program THEN IdxL(ProgramGroundPh(r.left, sgP)) ELSE TT,
            gLP |-> IF r.left_is_program THEN IdxL(ProgramGroundPh(SelectSeq(r.left, LAMBDA x : IsPrivHead(x, lpriv)), sgP)) ELSE TT,
            suppL |-> IF r.left_is_program THEN TLCEval([a \in AtomsOver(lpriv) |-> [at |-> ix[a], g |-> IdxL(Supp(r.left, a, sgP))]]) ELSE <<>>,
            spec |-> IF r.left_is_program THEN <<>> ELSE TLCEval([k \in DOMAIN r.left |-> IdxL(Ground(r.left[k].f, envF))])]
      \* every private atom is in J iff it is supported
      PrivOk(supp, J) == AndSeq3({IF supp[a].at \in J THEN PCI(supp[a].g, J) ELSE 2 - PCI(supp[a].g, J) : a \in DOMAIN supp})
      Step(acc, pre, J, pv) ==
        LET JL == J \cap leftIdx
            JR == J \cap rightIdx
            assm == AndSeq3({PCI(pre.assm[k], J) : k \in DOMAIN pre.assm})
            sr == StableIdx(pre.gR, JR, inputIdx)
            pr == Min3(PCI(pre.gRP, JR), PrivOk(pre.suppR, JR))
            sl == IF r.left_is_program THEN StableIdx(pre.gL, JL, inputIdx) ELSE 1
            pl == IF r.left_is_program THEN Min3(PCI(pre.gLP, JL), PrivOk(pre.suppL, JL)) ELSE 2
            SpecVal(S) == AndSeq3({PCI(pre.spec[k], J) : k \in S})
            oracleF == IF r.left_is_program THEN Min3(Min3(assm, sl), Min3(pr, 2 - sr))
                       ELSE Min3(Min3(assm, Min3(SpecVal(sAF), SpecVal(sSF))), Min3(pr, 2 - sr))
            oracleB == IF r.left_is_program THEN Min3(Min3(assm, sr), Min3(pl, 2 - sl))
                       ELSE Min3(Min3(assm, SpecVal(sAU)), Min3(sr, 2 - SpecVal(sSB)))
            fv == TLCEval([k \in DOMAIN pre.gs |-> PCI(pre.gs[k], J)])
            vals == TLCEval([ky \in live |-> FamVal(ky[1], ky[2], fv)])
            w == [I |-> J, env |-> pv]
            c19(d) == LET def == {vals[ky] : ky \in {x \in live : x[2] = d}} \ {1}
                      IN IF def = {} THEN <<1, 1>> ELSE IF def = {0, 2} THEN <<2, 0>> ELSE <<CHOOSE x \in def : TRUE, CHOOSE x \in def : TRUE>>
        IN [fam |-> [ky \in keys |-> IF ky \in live THEN TallyE(acc.fam[ky], vals[ky], IF ky[2] THEN oracleF ELSE oracleB, w) ELSE acc.fam[ky]],
            c19 |-> [d \in BOOLEAN |-> TallyE(acc.c19[d], c19(d)[1], c19(d)[2], w)]]
      zero == [fam |-> [ky \in keys |-> ZeroE], c19 |-> [d \in BOOLEAN |-> ZeroE]]
      res == FoldSet(LAMBDA pv, a0 : LET pre == TLCEval(Prepared(pv)) IN FoldSet(LAMBDA Jc, a1 : Step(a1, pre, Jc, pv), a0, SUBSET core),
                     zero, PhAssignments(r.placeholders))
      Fin(e, what1, what2) ==
        [n |-> e.n, unk |-> e.unk, t |-> e.t, f |-> e.f, dis |-> e.d1 + e.d2,
         wit |-> IF e.d1 > 0 THEN [I |-> UnIndex(e.w1.I, nb), env |-> e.w1.env, anthem |-> what1, reference |-> "not " \o what2]
                 ELSE IF e.d2 > 0 THEN [I |-> UnIndex(e.w2.I, nb), env |-> e.w2.env, anthem |-> "no problem of the direction is refuted", reference |-> what2] ELSE <<>>,
         groups |-> 1, ident |-> 0, atoms |-> nb.n]
      famOuts == [i \in DOMAIN fams |->
                    (IF wanted(i, TRUE) THEN <<Out(r, "C02.forward_refuted_iff_behavioural_difference",
                                                   Fin(res.fam[<<i, TRUE>>], "a forward problem is refuted", "(assumptions, left admits I, right-private part determined, right rejects I)"),
                                                   ToString(fams[i].flags))>> ELSE <<>>)
                    \o (IF wanted(i, FALSE) THEN <<Out(r, "C02.backward_refuted_iff_behavioural_difference",
                                                       Fin(res.fam[<<i, FALSE>>], "a backward problem is refuted", "(assumptions, right admits I, left-private part determined, left rejects I)"),
                                                       ToString(fams[i].flags))>> ELSE <<>>)]
  IN FlattenSeq(famOuts)
     \o <<Out(r, "C19.external_families_agree_forward", Fin(res.c19[TRUE], "refuted in one family", "refuted in another family"), ""),
          Out(r, "C19.external_families_agree_backward", Fin(res.c19[FALSE], "refuted in one family", "refuted in another family"), "")>>
EvalExternal(r) ==
  LET fams == SelectSeq(r.families, LAMBDA fm : "problems" \in DOMAIN fm)   \* accepted families (possibly with an empty problem list)
  IN IF fams = <<>> THEN <<Skip(r, "C02.forward_refuted_iff_behavioural_difference", "task refused")>>
     ELSE ExternalEval(r, fams)

\* ---------------------------------------------------------------- C11: analyses and task preconditions
EvalAnalyze(r) ==
  <<Out(r, "C11.tightness_exact",
        IF r.tight = Tight(r.rules) THEN OkT
        ELSE BadT([note |-> "analyze --property tightness disagrees with the dependency-graph definition", anthem |-> r.tight, reference |-> Tight(r.rules)]), ""),
    Out(r, "C11.regularity_exact",
        IF r.regular = Regular(r.rules) THEN OkT
        ELSE BadT([note |-> "analyze --property regularity disagrees with the documented definition", anthem |-> r.regular, reference |-> Regular(r.rules)]), "")>>

RECURSIVE FormPreds(_)
FormPreds(f) == CASE f.k \in {"true", "false", "cmp"} -> {}
                  [] f.k = "atom" -> {<<f.p, Len(f.args)>>}
                  [] f.k = "not" -> FormPreds(f.f)
                  [] f.k \in {"forall", "exists"} -> FormPreds(f.f)
                  [] OTHER -> FormPreds(f.l) \cup FormPreds(f.r)
\* the conditions the property lists; `why` names the first one that fails ("" if none)
TaskDefect(r, bypass) ==
  LET inp == PredsOf(r.inputs)
      outp == PredsOf(r.outputs)
      pub == inp \cup outp
      rpriv == PredsOf(r.rpreds) \ pub
      lpriv == PredsOf(r.lpreds) \ pub
      ugA == SelectSeq(r.ug, LAMBDA e : e.k = "formula" /\ e.a.role = "assumption")
      phs == SelectSeq(r.ug, LAMBDA e : e.k = "placeholder")
  IN IF inp \cap outp # {} THEN "input and output declarations overlap"
     ELSE IF ~bypass /\ ~Tight(r.right) THEN "the program is not tight"
     ELSE IF PrivateRecursion(r.right, rpriv) THEN "the program has private recursion"
     ELSE IF HeadPreds(r.right) \cap inp # {} THEN "an input predicate heads a rule of the program"
     ELSE IF \E i, j \in DOMAIN phs : phs[i].c = phs[j].c /\ phs[i].s # phs[j].s THEN "a placeholder is declared with two sorts"
     ELSE IF \E i \in DOMAIN ugA : ~(FormPreds(ugA[i].a.f) \subseteq inp) THEN "a user-guide assumption mentions a non-input predicate"
     ELSE IF r.left_is_program /\ ~bypass /\ ~Tight(r.left) THEN "the specification program is not tight"
     ELSE IF r.left_is_program /\ PrivateRecursion(r.left, lpriv) THEN "the specification program has private recursion"
     ELSE IF r.left_is_program /\ HeadPreds(r.left) \cap inp # {} THEN "an input predicate heads a rule of the specification program"
     ELSE IF ~r.left_is_program /\ \E i \in DOMAIN r.left : r.left[i].role = "assumption" /\ FormPreds(r.left[i].f) \cap outp # {}
          THEN "a specification assumption mentions an output predicate"
     ELSE ""
EvalAccept(r) ==
  [i \in DOMAIN r.families |->
     LET fm == r.families[i]
         why == TaskDefect(r, fm.flags.bypass)
         refused == "error" \in DOMAIN fm
         emitted == "problems" \in DOMAIN fm
     IN IF fm.flags.mu THEN Skip(r, "C11.refused_iff_a_condition_fails", "mu representation (not in the listed conditions)")
        ELSE IF why # "" /\ ~refused
             THEN Out(r, "C11.refused_iff_a_condition_fails", BadT([note |-> "task accepted although " \o why]), ToString(fm.flags))
        ELSE IF why = "" /\ r.left_is_program /\ ~emitted
             THEN Out(r, "C11.refused_iff_a_condition_fails", BadT([note |-> "task refused although every listed condition holds", error |-> IF refused THEN fm.error ELSE "panic"]), ToString(fm.flags))
        ELSE IF refused /\ emitted THEN Out(r, "C11.refused_iff_a_condition_fails", BadT([note |-> "error and problems"]), "")
        ELSE Out(r, "C11.refused_iff_a_condition_fails", [OkT EXCEPT !.t = IF why = "" THEN 1 ELSE 0, !.f = IF why = "" THEN 0 ELSE 1], why)]

\* ---------------------------------------------------------------- kinds "tptp" and "tffproblem": C06, C09, C12
\* classical equivalence of two closed-up-to-placeholders formulas, for every placeholder valuation
EquivClosed(f1, f2) ==
  LET keys == FreeKeys(<<f1, f2>>)
  IN OverEnvs(keys, LAMBDA e : CLEquiv(Ground(f1, e), Ground(f2, e), e))
\* r.tff: the tree the strict reader produced for anthem's rendering of r.f; r.decls: the declarations a problem would carry
EvalTptp(r) ==
  LET tab == SymTable(r.decls)
      types == KnownTypes(r.decls)
      why == FormWhy(r.tff, <<>>, tab, types)
  IN IF why # "" THEN <<Out(r, "C06.rendering_is_well_typed", BadT([note |-> why]), "")>>
     ELSE <<Out(r, "C06.rendering_is_well_typed", OkT, ""),
            Out(r, "C06.rendering_preserves_meaning", EquivClosed(FormS(r.tff, <<>>, tab, RankOf(r.syms)), r.f), "")>>

PreambleNames == {"p__is_integer__def_ax", "p__is_symbolic__def_ax", "general_universe_ax", "f__integer__def_ax", "f__symbolic__def_ax",
                  "numeral_ordering_ax", "antisymmetric_ordering_ax", "transitive_ordering_ax", "strongly_connected_ordering_ax",
                  "p__less__def_ax", "p__greater_equal__def_ax", "p__greater__def_ax", "minimal_element_ax",
                  "numerals_less_than_symbols_ax", "maximal_element_ax"}
IsOrderName(nm) == Len(nm) > 13 /\ SubSeq(nm, 1, 13) = "symbol_order_"
\* kind "tffproblem": r.nodes (reader output for the problem text), r.source (the formulas of the problem as trees: name, conj, f),
\* r.syms (symbolic constants of the source formulas, byte order), r.preds (for strong equivalence: the program predicates)
EvalProblem(r) ==
  LET whys == ProblemWhys(r.nodes)
      tab == SymTable(r.nodes)
      \* a symbolic constant's place in the standard order is that of the user's name for it (anthem renames s to s__s when s
      \* is also a 0-ary predicate; the orchestrator undoes exactly that documented renaming)
      rank == [s \in {r.true_ranks[k][1] : k \in DOMAIN r.true_ranks} |-> r.true_ranks[CHOOSE k \in DOMAIN r.true_ranks : r.true_ranks[k][1] = s][2]]
      fs == Forms(r.nodes)
      srcNames == {r.source[k].name : k \in DOMAIN r.source}
      own == SelectSeq(fs, LAMBDA n : n.name \notin srcNames)          \* axioms anthem adds on its own
      user == SelectSeq(fs, LAMBDA n : n.name \in srcNames)
      orderAx == SelectSeq(own, LAMBDA n : IsOrderName(n.name))
      preamble == SelectSeq(own, LAMBDA n : ~IsOrderName(n.name))
      \* C12: truth of every own axiom under the standard interpretation (no user predicate occurs in them)
      \* ("X": the axiom mentions a constant that is neither a symbolic constant of the source formulas nor bound: it cannot be
      \* given its standard meaning)
      ownVals == [k \in DOMAIN own |-> LET g == FormS(own[k].f, <<>>, tab, rank) IN IF FV(g) # {} THEN "X" ELSE Ground(g, EmptyEnv).k]
      ConstName(t) == IF t.k = "app" /\ t.f = "f__symbolic__" /\ Len(t.args) = 1 /\ t.args[1].k = "app" THEN t.args[1].f ELSE "?"
      chain == [k \in DOMAIN orderAx |-> IF orderAx[k].f.k = "patom" /\ orderAx[k].f.p = "p__less__" /\ Len(orderAx[k].f.args) = 2
                                         THEN <<ConstName(orderAx[k].f.args[1]), ConstName(orderAx[k].f.args[2])>> ELSE <<"?", "?">>]
      names == {r.syms[k] : k \in DOMAIN r.syms}
      \* a path x1 < x2 < ... < xk through every symbolic constant of the problem exactly once
      isChain == /\ Len(chain) = (IF Len(r.syms) = 0 THEN 0 ELSE Len(r.syms) - 1)
                 /\ \A k \in 1..(Len(chain) - 1) : chain[k][2] = chain[k + 1][1]
                 /\ {chain[k][1] : k \in DOMAIN chain} \cup {chain[k][2] : k \in DOMAIN chain} = (IF Len(r.syms) > 1 THEN names ELSE {})
                 /\ \A k, m \in DOMAIN chain : k # m => chain[k][1] # chain[m][1]
      \* C06 inside the problem: each user formula of the text means what its source formula means
      SrcOf(nm) == r.source[CHOOSE k \in DOMAIN r.source : r.source[k].name = nm]
      roleOk == \A k \in DOMAIN user : (user[k].role = "conjecture") = SrcOf(user[k].name).conj
      meaning == [k \in DOMAIN user |-> EquivClosed(FormS(user[k].f, <<>>, tab, rank), SrcOf(user[k].name).f)]
      meaningAll == FoldSet(LAMBDA k, acc : MergeT(acc, meaning[k]), Zero, DOMAIN user)
  IN IF whys # <<>> THEN [k \in DOMAIN whys |-> Out(r, "C09.problem_is_wellformed_tff", BadT([note |-> whys[k]]), "")]
     \* only the checks of the property being decided are evaluated (the semantic ones are costly)
     ELSE (IF Prop \in {"C09", "C06", "C12"} /\ Prop # "C09" THEN <<>> ELSE
          <<Out(r, "C09.problem_is_wellformed_tff", OkT, ""),
            Out(r, "C09.text_carries_exactly_the_source_formulas",
                IF Len(user) = Len(r.source) /\ roleOk THEN OkT ELSE BadT([note |-> "formulas of the text and of the problem differ in number or role"]), "")>>) \o
          (IF Prop \in {"C09", "C12"} THEN <<>> ELSE <<Out(r, "C06.problem_formulas_preserve_meaning", meaningAll, "")>>) \o
          (IF Prop \in {"C09", "C06"} THEN <<>> ELSE
          <<Out(r, "C12.own_axioms_true_in_standard_interpretation",
                IF \E k \in DOMAIN own : ownVals[k] = "X"
                THEN BadT([note |-> "an axiom anthem adds mentions a constant that is not a symbolic constant of the problem's formulas",
                           axiom |-> own[CHOOSE k \in DOMAIN own : ownVals[k] = "X"].name])
                ELSE IF \E k \in DOMAIN own : ownVals[k] = "F"
                THEN LET bad == own[CHOOSE k \in DOMAIN own : ownVals[k] = "F"] IN
                     BadT([note |-> "an axiom anthem adds is false under the standard interpretation", axiom |-> bad.name,
                           pair |-> IF IsOrderName(bad.name) /\ bad.f.k = "patom" /\ Len(bad.f.args) = 2 THEN <<ConstName(bad.f.args[1]), ConstName(bad.f.args[2])>> ELSE <<>>,
                           renamed |-> r.renamed])
                ELSE IF \E k \in DOMAIN preamble : preamble[k].name \notin PreambleNames
                THEN BadT([note |-> "an axiom that is neither from the user's files nor of a known kind",
                           axiom |-> preamble[CHOOSE k \in DOMAIN preamble : preamble[k].name \notin PreambleNames].name])
                ELSE [OkT EXCEPT !.n = Len(own)], ""),
            Out(r, "C12.symbol_order_is_a_covering_chain",
                IF isChain THEN OkT
                ELSE BadT([note |-> "the ordering axioms are not a chain through all symbolic constants of the problem", got |-> chain, symbols |-> r.syms]), "")>>)

\* strong equivalence: every h-implies-t axiom holds whenever H is below T (all pairs over the atoms the axioms mention)
EvalTransition(r) ==
  LET ax == SelectSeq(r.source, LAMBDA x : ~x.conj /\ x.transition)
      g == GroundAll([k \in DOMAIN ax |-> ax[k].f], EmptyEnv)
      base == {<<SubSeq(a[1], 2, Len(a[1])), a[2]>> : a \in PAtoms(g)}
      nb == Numbering(base)
      core == 1..(IF nb.n <= HTCap THEN nb.n ELSE HTCap)
      res == FoldSet(LAMBDA Tc, a1 : FoldSet(LAMBDA Hc, a2 :
                 LET I == PrefixAtoms(UnIndex(Hc, nb), "h") \cup PrefixAtoms(UnIndex(Tc, nb), "t")
                 IN TallyE(a2, PCI(g, I), 2, [H |-> UnIndex(Hc, nb), T |-> UnIndex(Tc, nb)]), a1, SUBSET Tc), ZeroE, SUBSET core)
  IN <<Out(r, "C12.transition_axioms_hold_when_H_below_T",
           [n |-> res.n, unk |-> res.unk, t |-> res.t, f |-> res.f, dis |-> res.d1 + res.d2,
            wit |-> IF res.d2 > 0 THEN [H |-> res.w2.H, T |-> res.w2.T, anthem |-> "a transition axiom is false", reference |-> "H is below T"] ELSE <<>>,
            groups |-> 1, ident |-> IF nb.n = 0 THEN 1 ELSE 0, atoms |-> nb.n], "")>>

\* ---------------------------------------------------------------- kind "roundtrip": C14, C15
\* text0 -parse-> tree1 -print-> text2 -parse-> tree2 -print-> text3:  tree2 = tree1 and text3 = text2
EvalRoundtrip(r) ==
  IF Prop = "C02"    \* entries of specifications / user guides printed by the reference grammar: role, direction, name, sort, arity
  THEN <<Out(r, "C02.text_parses_to_reference_tree",
             IF r.stage # "parse1" /\ r.tree1 = r.exp THEN OkT
             ELSE BadT([note |-> "the parser reads the entry differently from the grammar (role, direction, name, sort, arity) or rejects it", reference |-> r.exp]), "")>>
  ELSE IF r.stage = "parse1" THEN <<Skip(r, Prop \o ".reparse_gives_the_same_tree", "the input text is not accepted")>>
  ELSE IF r.stage # "done"
       THEN <<Out(r, Prop \o ".printed_text_is_accepted",
                  BadT([note |-> "anthem does not accept the text it printed itself (" \o r.stage \o ")", error |-> r.problem, got |-> r.text2]), "")>>
  ELSE <<Out(r, Prop \o ".printed_text_is_accepted", OkT, ""),
         Out(r, Prop \o ".reparse_gives_the_same_tree",
             IF r.tree1s = r.tree2s THEN OkT ELSE BadT([note |-> "the tree parsed from the printed text differs from the original tree", got |-> r.text2]), ""),
         Out(r, Prop \o ".printing_is_stable",
             IF r.text3 = r.text2 THEN OkT ELSE BadT([note |-> "printing the re-parsed tree gives other text", got |-> r.text3, expected |-> r.text2]), "")>>

\* ---------------------------------------------------------------- kind "fixloop": C18 (fixpoint strategy)
\* r.passes: the formula hashes of the driven loop f, step(f), step(step(f)), ...;  accepted iff it is a behaviour of
\* SimplifyLoop.tla that stops: no formula is revisited, the loop stopped within the bound, the library's own loop returned the
\* same formula, and simplifying the result again returns it unchanged.
EvalFixLoop(r) ==
  LET hs == r.passes
      revisit == \E i, j \in DOMAIN hs : i < j /\ hs[i] = hs[j]
  IN <<Out(r, "C18.fixpoint_loop_terminates",
           IF revisit THEN BadT([note |-> "a formula is revisited: the fixpoint iteration cycles", got |-> hs])
           ELSE IF ~r.converged THEN BadT([note |-> "no fixed point within the pass bound", got |-> Len(hs)])
           ELSE [OkT EXCEPT !.n = Len(hs), !.t = IF Len(hs) > 1 THEN 1 ELSE 0, !.f = IF Len(hs) > 1 THEN 1 ELSE 0], r.portfolio),
       Out(r, "C18.result_is_a_fixed_point",
           IF r.converged /\ ~r.idempotent THEN BadT([note |-> "simplifying the result again changes it"])
           ELSE IF r.converged /\ ~r.lib_equal THEN BadT([note |-> "the library's fixpoint strategy returns another formula than iterating passes until nothing changes"])
           ELSE OkT, r.portfolio)>>

\* ---------------------------------------------------------------- C13: proof outlines (kind "external" with a non-empty outline)
\* acceptance conditions of verifying/outline/mod.rs on the trees of the outline entries
RECURSIVE LeadingForall(_)
LeadingForall(f) == IF f.k = "forall" THEN LET r == LeadingForall(f.f) IN [vars |-> Keys(f.vars) \cup r.vars, body |-> r.body, dup |-> r.dup \/ Len(f.vars) # Cardinality(Keys(f.vars))]
                    ELSE [vars |-> {}, body |-> f, dup |-> FALSE]
IsVarT(t) == t.k = "var"
DefPred(f) == <<f.f.l.p, Len(f.f.l.args)>>
DefWhy(f, taken) ==
  IF ~(f.k = "forall" /\ f.f.k = "iff" /\ f.f.l.k = "atom") THEN "it is not a universally quantified equivalence with an atom on the left"
  ELSE LET a == f.f.l
           dvars == Keys(f.vars)
       IN IF Len(f.vars) # Cardinality(dvars) THEN "a variable is quantified twice"
          ELSE IF \E k \in DOMAIN a.args : ~IsVarT(a.args[k]) THEN "an argument of the defined atom is not a variable"
          ELSE IF {<<a.args[k].v, a.args[k].s>> : k \in DOMAIN a.args} # dvars THEN "the quantified variables are not the arguments of the defined atom"
          ELSE IF DefPred(f) \in taken THEN "the defined predicate is taken"
          ELSE IF ~(FreeVarKeys(f.f.r) \subseteq dvars) THEN "the body has other free variables"
          ELSE IF ~(FormPreds(f.f.r) \subseteq taken) THEN "the body mentions a predicate that is neither in the task nor defined earlier"
          ELSE ""
\* shape after universal closure and joining of the leading universal quantifiers
IndShape(f) == LET lf == LeadingForall(f) IN [vars |-> lf.vars \cup FreeVarKeys(f), body |-> lf.body]
IndWhy(f) ==
  LET sh == IndShape(f)
      b == sh.body
  IN IF sh.vars = {} \/ b.k # "imp" THEN "it is not a universally quantified implication"
     ELSE IF b.l.k # "cmp" THEN "the antecedent is not a comparison"
     ELSE IF Len(b.l.g) # 1 THEN "the antecedent is a chained comparison"
     ELSE IF sh.vars # FreeVarKeys(b.r) THEN "the quantified variables are not the free variables of the consequent"
     ELSE IF ~(b.l.t.k = "var" /\ b.l.t.s = "i") THEN "the induction term is not an integer variable"
     ELSE IF ~(b.l.g[1].r = "ge" /\ b.l.g[1].t.k = "num") THEN "the antecedent is not of the form N >= numeral"
     ELSE ""
RECURSIVE OutlineWhy(_, _)
OutlineWhy(es, taken) ==
  IF es = <<>> THEN ""
  ELSE LET e == Head(es) IN
       IF e.role \in {"spec", "assumption"} THEN e.name \o ": role " \o e.role \o " is not allowed in a proof outline"
       ELSE IF e.role = "definition"
            THEN LET w == DefWhy(e.f, taken) IN IF w # "" THEN e.name \o ": " \o w ELSE OutlineWhy(Tail(es), taken \cup {DefPred(e.f)})
       ELSE IF e.role = "inductive-lemma"
            THEN LET w == IndWhy(e.f) IN IF w # "" THEN e.name \o ": " \o w ELSE OutlineWhy(Tail(es), taken)
       ELSE OutlineWhy(Tail(es), taken)

\* r.obs[i]: for family i the observed problems as [name, fwd, axioms |-> names, conj |-> name] (names with the numbering prefix
\* removed); sequencing condition of Outline.tla evaluated on the observed list
ConjNames(e) == IF e.role = "inductive-lemma" THEN {e.name \o "base_case", e.name \o "inductive_step"} ELSE {e.name}
AppliesTo(e, fwd) == e.dir = "universal" \/ (e.dir = "forward") = fwd
SequencingWhy(po, probs) ==
  LET entry(nm) == {k \in DOMAIN po : nm = po[k].name \/ nm \in ConjNames(po[k])}
      EstablishedBefore(e, k) == \A cn \in ConjNames(e) : \E m \in 1..(k - 1) : probs[m].fwd = probs[k].fwd /\ probs[m].conj = cn
      AxWhy(k, nm) ==
        IF entry(nm) = {} THEN ""
        ELSE LET e == po[CHOOSE x \in entry(nm) : TRUE] IN
             IF ~AppliesTo(e, probs[k].fwd) THEN probs[k].name \o " uses " \o nm \o " of the other direction as an axiom"
             ELSE IF e.role = "definition" THEN ""
             ELSE IF nm # e.name THEN probs[k].name \o " uses the proof obligation " \o nm \o " itself as an axiom"
             ELSE IF ~EstablishedBefore(e, k) THEN probs[k].name \o " uses lemma " \o nm \o " as an axiom before all problems establishing it were emitted"
             ELSE ""
      CjWhy(k) == IF entry(probs[k].conj) = {} THEN ""
                  ELSE LET e == po[CHOOSE x \in entry(probs[k].conj) : TRUE] IN
                       IF e.role = "definition" THEN probs[k].name \o " has a definition as conjecture"
                       ELSE IF ~AppliesTo(e, probs[k].fwd) THEN probs[k].name \o " proves a lemma of the other direction" ELSE ""
      Missing(fwd) == {cn \in UNION {ConjNames(po[k]) : k \in {x \in DOMAIN po : po[x].role \in {"lemma", "inductive-lemma"} /\ AppliesTo(po[x], fwd)}} :
                         ~\E m \in DOMAIN probs : probs[m].fwd = fwd /\ probs[m].conj = cn}
      dirs == {probs[m].fwd : m \in DOMAIN probs}
  IN First(FlattenSeq([k \in DOMAIN probs |-> <<CjWhy(k)>> \o [a \in DOMAIN probs[k].axioms |-> AxWhy(k, probs[k].axioms[a])]])
           \o [x \in 1..2 |-> LET fwd == (x = 1) IN IF fwd \in dirs /\ Missing(fwd) # {} THEN "no problem establishes " \o (CHOOSE c \in Missing(fwd) : TRUE) ELSE ""])

\* reference base case and inductive step of an accepted inductive lemma, as ground trees (semantics, not syntax: the induction
\* variable is ASSIGNED, so no substitution is involved on this side)
RefInduction(f) ==
  LET sh == IndShape(f)
      F == sh.body.r
      nkey == <<sh.body.l.t.v, "i">>
      n == sh.body.l.g[1].t.n
      others == SetToSeq(sh.vars \ {nkey})
      base == FoldSet(LAMBDA e, acc : IF acc.k = "F" THEN FF ELSE PAnd(acc, Ground(F, (nkey :> CInt(n)) @@ e)), TT, Envs(others))
      step == FoldSet(LAMBDA e, acc : IF acc.k = "F" THEN FF
                                      ELSE PAnd(acc, PImp(PAnd(Lit3(Rel3("ge", e[nkey], CInt(n))), Ground(F, e)),
                                                          Ground(F, (nkey :> AddI(e[nkey], CInt(1))) @@ e))),
                      TT, Envs(SetToSeq(sh.vars)))
  IN [base |-> base, step |-> step]

EvalOutline(r) ==
  LET pub == PredsOf(r.inputs) \cup PredsOf(r.outputs)
      clash == (PredsOf(r.lpreds) \ pub) \cap (PredsOf(r.rpreds) \ pub)
      \* the predicates of the task: inputs, those of the left side, those of the right side after the documented renaming
      taken0 == PredsOf(r.inputs) \cup PredsOf(r.lpreds) \cup {IF q \in clash THEN <<q[1] \o "_p", q[2]>> ELSE q : q \in PredsOf(r.rpreds)}
      why == OutlineWhy(r.po, taken0)
      PerFamily(i) ==
        LET fm == r.families[i]
            refused == "error" \in DOMAIN fm
        IN IF why # "" /\ ~refused THEN <<Out(r, "C13.outline_accepted_iff_wellformed", BadT([note |-> "outline accepted although " \o why]), "")>>
           ELSE IF why = "" /\ refused THEN <<Out(r, "C13.outline_accepted_iff_wellformed", BadT([note |-> "outline refused although every entry is acceptable", error |-> fm.error]), "")>>
           ELSE IF refused THEN <<Out(r, "C13.outline_accepted_iff_wellformed", [OkT EXCEPT !.t = 0, !.f = 1], why)>>
           ELSE LET sw == SequencingWhy(r.po, r.obs[i])
                    inds == {k \in DOMAIN r.po : r.po[k].role = "inductive-lemma"}
                    IndOuts(k) ==
                      LET e == r.po[k]
                          ref == RefInduction(e.f)
                          found(nm) == {x \in DOMAIN r.induction[i] : r.induction[i][x].name = nm}
                          gb == found(e.name \o "base_case")
                          gs == found(e.name \o "inductive_step")
                      IN IF gb = {} \/ gs = {} THEN <<>>
                         ELSE <<Out(r, "C13.base_case_is_F_at_n", CLEquiv(Ground(r.induction[i][CHOOSE x \in gb : TRUE].f, EmptyEnv), ref.base, <<>>), e.name),
                                Out(r, "C13.inductive_step_is_F_N_implies_F_N_plus_1", CLEquiv(Ground(r.induction[i][CHOOSE x \in gs : TRUE].f, EmptyEnv), ref.step, <<>>), e.name)>>
                    \* the AXIOM a plain lemma contributes must follow from the CONJECTURES of the outline problems emitted before its
                    \* first use in that direction (r.est[i]: uses = [k, fwd, name, f], conjs = [k, fwd, f]); it is usually one of them
                    uses == r.est[i].uses
                    conjs == r.est[i].conjs
                    EstOut(u) ==
                      LET before == SelectSeq(conjs, LAMBDA c : c.fwd = u.fwd /\ c.k < u.k)
                          trees == <<u.f>> \o [j \in DOMAIN before |-> before[j].f]
                          tally == OverEnvs(FreeKeys(trees), LAMBDA e :
                                     LET C == GroundAll([j \in DOMAIN before |-> before[j].f], e)
                                     IN CLEquiv(PAnd(C, Ground(u.f, e)), C, e))
                      IN Out(r, "C13.lemma_axiom_follows_from_the_conjectures_establishing_it", tally, u.name)
                IN <<Out(r, "C13.outline_accepted_iff_wellformed", OkT, ""),
                     Out(r, "C13.lemmas_are_axioms_only_after_they_are_established", IF sw = "" THEN OkT ELSE BadT([note |-> sw]), ToString(fm.flags))>>
                   \o FlattenSeq([k \in 1..Len(r.po) |-> IF k \in inds THEN IndOuts(k) ELSE <<>>])
                   \o [j \in DOMAIN uses |-> EstOut(uses[j])]
  IN FlattenSeq([i \in DOMAIN r.families |-> PerFamily(i)])

EvalRecord(r) ==
  CASE r.kind = "rule" -> EvalRule(r)
    [] r.kind = "external" /\ Prop = "C13" -> EvalOutline(r)
    [] r.kind = "fixloop" -> EvalFixLoop(r)
    [] r.kind = "roundtrip" -> EvalRoundtrip(r)
    [] r.kind = "tptp" -> EvalTptp(r)
    [] r.kind = "tffproblem" -> EvalProblem(r) \o (IF r.strong /\ Prop \notin {"C09", "C06"} THEN EvalTransition(r) ELSE <<>>)
    [] r.kind = "analyze" -> EvalAnalyze(r)
    [] r.kind = "external" /\ Prop = "C11" -> EvalAccept(r)
    [] r.kind = "external" -> EvalExternal(r)
    [] r.kind = "strong" -> EvalStrong(r)
    [] r.kind = "completion" -> EvalCompletion(r)
    [] r.kind = "completable" -> EvalCompletable(r)
    [] r.kind = "equiv" -> EvalEquiv(r)
    [] r.kind = "gamma" -> EvalGamma(r)
    [] r.kind = "subst" -> EvalSubst(r)
    [] OTHER -> <<Skip(r, "none", r.kind)>>

Init == st = [ph |-> "init"] /\ P = DefaultP
Pick(i) == /\ st.ph = "init"
           /\ st' = [ph |-> "picked", i |-> i]
           /\ P' = ParamsOf(Rec[i])
Eval == /\ st.ph = "picked"
        /\ LET out == EvalRecord(Rec[st.i])
           IN /\ \A k \in DOMAIN out : PrintT(ToJson(out[k]))
              /\ st' = [ph |-> "done", i |-> st.i]
        /\ UNCHANGED P
Next == (\E i \in Lo..Hi : Pick(i)) \/ Eval
Spec == Init /\ [][Next]_vars
=============================================================================
