------------------------------ MODULE TraceSem ------------------------------
(***************************************************************************)
(* Trace specification for the SEMANTIC properties (implementation ->      *)
(* specification direction).  Every line of the ndjson trace is one thing  *)
(* the real anthem produced for one input (harness/src/main.rs); this      *)
(* module accepts the line iff what anthem produced means what the         *)
(* specification says it must mean, for EVERY interpretation over the      *)
(* record's finite base, every assignment of free variables and every      *)
(* placeholder value - the quantifiers of the properties are evaluated by  *)
(* TLC here, not by the harness.                                           *)
(*                                                                         *)
(* Behaviour:  Init --Pick(i)--> picked(i) --Eval--> done(i)               *)
(* Pick is cheap and has one successor per trace line; Eval does all the   *)
(* work for its line, so TLC's workers process lines in parallel.          *)
(* Eval prints one JSON verdict per line; `check` collects them.           *)
(*                                                                         *)
(* verdict.v:  "agree"    every definite evaluation agreed                 *)
(*             "DISAGREE" a definite counterexample exists (witness given) *)
(*             "skip"     record kind carries nothing to check here        *)
(* counts:     n_eval, n_unknown (three-valued U: never an alarm),         *)
(*             n_true / n_false (non-vacuity: how often the reference side *)
(*             was true / false among the definite evaluations)            *)
(***************************************************************************)
EXTENDS MiniGringo, Json, IOUtils, FiniteSetsExt, SequencesExt

Rec == ndJsonDeserialize(IOEnv.VERIF_TRACE)
Lo == atoi(IOEnv.VERIF_LO)          \* this JVM handles lines Lo .. Hi (sharding)
Hi == IF atoi(IOEnv.VERIF_HI) > Len(Rec) THEN Len(Rec) ELSE atoi(IOEnv.VERIF_HI)
HTCap == atoi(IOEnv.VERIF_HTCAP)    \* atoms enumerated exhaustively for HT checks (3^n pairs)
CLCap == atoi(IOEnv.VERIF_CLCAP)    \* atoms enumerated exhaustively for classical checks (2^n)
Rot == atoi(IOEnv.VERIF_SEED)       \* rotates which atoms form the exhaustive core
Prop == IOEnv.VERIF_PROP            \* the property being decided (selects the checks evaluated)

VARIABLE st
vars == <<P, st>>

DefaultP == MkParams(-3, 3, -1, 2, 1, 1, FALSE)
ParamsOf(r) ==
  IF "pp" \in DOMAIN r
  THEN MkParams(r.pp.wlo, r.pp.whi, r.pp.lo, r.pp.hi,
                IF r.nsyms > r.pp.minsyms THEN r.nsyms ELSE r.pp.minsyms,
                r.pp.nbs, r.pp.ext)
  ELSE DefaultP

\* ---------------------------------------------------------------- enumeration of interpretations
\* Atoms of a group are numbered 1..n (deterministic order, rotated by the seed); the first `cap` of
\* them form the core that is enumerated exhaustively, the rest is tried all-false / there-only /
\* here-and-there.
Zero == [n |-> 0, unk |-> 0, t |-> 0, f |-> 0, dis |-> 0, wit |-> <<>>, groups |-> 0, ident |-> 0, atoms |-> 0]
ZeroE == [n |-> 0, unk |-> 0, t |-> 0, f |-> 0, d1 |-> 0, w1 |-> <<>>, d2 |-> 0, w2 |-> <<>>]
\* a = value of what anthem produced, b = value of the reference
TallyE(acc, a, b, w) ==
  IF a = 1 \/ b = 1 THEN [acc EXCEPT !.n = @ + 1, !.unk = @ + 1]
  ELSE IF a = b THEN (IF b = 2 THEN [acc EXCEPT !.n = @ + 1, !.t = @ + 1] ELSE [acc EXCEPT !.n = @ + 1, !.f = @ + 1])
  ELSE IF a = 2 THEN [acc EXCEPT !.n = @ + 1, !.d1 = @ + 1, !.w1 = IF acc.d1 = 0 THEN w ELSE @]
  ELSE [acc EXCEPT !.n = @ + 1, !.d2 = @ + 1, !.w2 = IF acc.d2 = 0 THEN w ELSE @]
RECURSIVE Pow2(_)
Pow2(n) == IF n = 0 THEN 1 ELSE 2 * Pow2(n - 1)

Numbering(atoms) ==
  LET sq == SetToSeq(atoms)
      n == Len(sq)
      rot == IF n = 0 THEN 0 ELSE Rot % n
  IN [n |-> n, at |-> [j \in 1..n |-> sq[((j - 1 + rot) % n) + 1]]]
UnIndex(S, nb) == {nb.at[j] : j \in S}
Indexer(atoms, nb) == [a \in atoms |-> CHOOSE j \in 1..nb.n : nb.at[j] = a]

\* all HT pairs over the numbered atoms of one group, as pairs of index sets
PairSpace(n, cap) ==
  LET c == IF n <= cap THEN n ELSE cap
      rest == (c + 1)..n
  IN [core |-> 1..c, rps |-> IF rest = {} THEN {<<{}, {}>>} ELSE {<<{}, {}>>, <<{}, rest>>, <<rest, rest>>}]

\* pointwise comparison of A (anthem) and B (reference) over the atoms of one group
EnumHT(A, B, atoms) ==
  LET nb == TLCEval(Numbering(atoms))
      ix == TLCEval(Indexer(atoms, nb))
      a == TLCEval(IndexTree(A, ix))
      b == TLCEval(IndexTree(B, ix))
      sp == PairSpace(nb.n, HTCap)
      StepH(acc, H, T) == TallyE(acc, PS2(a, H, T) \div 3, PS2(b, H, T) \div 3, [H |-> H, T |-> T])
      StepT(acc, Tc, rp) ==
        LET T == Tc \cup rp[2] IN
        IF PCI(a, T) = 0 /\ PCI(b, T) = 0            \* persistence: false at (T,T) => false at every (H,T)
        THEN LET m == Pow2(Cardinality(Tc)) IN [acc EXCEPT !.n = @ + m, !.f = @ + m]
        ELSE FoldSet(LAMBDA Hc, x : StepH(x, Hc \cup rp[1], T), acc, SUBSET Tc)
      res == FoldSet(LAMBDA rp, x : FoldSet(LAMBDA Tc, y : StepT(y, Tc, rp), x, SUBSET sp.core), ZeroE, sp.rps)
      back(w) == IF w = <<>> THEN <<>> ELSE [H |-> UnIndex(w.H, nb), T |-> UnIndex(w.T, nb)]
  IN [res EXCEPT !.w1 = back(@), !.w2 = back(@)]

\* some pair that makes the tree definitely true here (a "model"), if the explored space has one
ModelHT(A, atoms) ==
  LET nb == TLCEval(Numbering(atoms))
      ix == TLCEval(Indexer(atoms, nb))
      a == TLCEval(IndexTree(A, ix))
      sp == PairSpace(nb.n, HTCap)
      cands == {<<Hc \cup rp[1], Tc \cup rp[2]>> : rp \in sp.rps, Tc \in SUBSET sp.core, Hc \in SUBSET sp.core}
      good == {pr \in cands : pr[1] \subseteq pr[2] /\ PS2(a, pr[1], pr[2]) \div 3 = 2}
  IN IF good = {} THEN [ok |-> FALSE]
     ELSE LET pr == CHOOSE x \in good : TRUE IN [ok |-> TRUE, H |-> UnIndex(pr[1], nb), T |-> UnIndex(pr[2], nb)]

\* g1: what anthem produced; g2: reference.  Exact HT-equivalence by independent groups.
HTEquiv(g1, g2, extra) ==
  IF g1 = g2 THEN [Zero EXCEPT !.ident = 1, !.atoms = Cardinality(PAtoms(g2))]
  ELSE
  LET S1 == ConjOf(g1)
      S2 == ConjOf(g2)
      groups == Groups(S1 \cup S2)
      diff == {g \in groups : g.items \cap S1 # g.items \cap S2}
      cmp == TLCEval([g \in diff |-> EnumHT(AndOf(g.items \cap S1), AndOf(g.items \cap S2), g.atoms)])
      sum == FoldSet(LAMBDA g, acc : [acc EXCEPT !.n = @ + cmp[g].n, !.unk = @ + cmp[g].unk, !.t = @ + cmp[g].t,
                                                 !.f = @ + cmp[g].f, !.groups = @ + 1],
                     [Zero EXCEPT !.atoms = Cardinality(PAtoms(g2))], diff)
      c1 == {g \in diff : cmp[g].d1 > 0}      \* groups where anthem's side is true and the reference false
      c2 == {g \in diff : cmp[g].d2 > 0}
      \* extend a local witness of group g by models of the other groups of the side that must be true
      Extend(g, w, S) ==
        LET others == groups \ {g}
            ms == TLCEval([o \in others |-> IF o.items \cap S = {} THEN [ok |-> TRUE, H |-> {}, T |-> {}]
                                            ELSE ModelHT(AndOf(o.items \cap S), o.atoms)])
        IN IF \A o \in others : ms[o].ok
           THEN [ok |-> TRUE, H |-> w.H \cup UNION {ms[o].H : o \in others}, T |-> w.T \cup UNION {ms[o].T : o \in others}]
           ELSE [ok |-> FALSE]
      e1 == IF c1 = {} THEN [ok |-> FALSE] ELSE LET g == CHOOSE x \in c1 : TRUE IN Extend(g, cmp[g].w1, S1)
      e2 == IF c2 = {} THEN [ok |-> FALSE] ELSE LET g == CHOOSE x \in c2 : TRUE IN Extend(g, cmp[g].w2, S2)
  IN IF e1.ok THEN [sum EXCEPT !.dis = 1, !.wit = [H |-> e1.H, T |-> e1.T, anthem |-> "true", reference |-> "false", env |-> extra]]
     ELSE IF e2.ok THEN [sum EXCEPT !.dis = 1, !.wit = [H |-> e2.H, T |-> e2.T, anthem |-> "false", reference |-> "true", env |-> extra]]
     ELSE sum

MergeT(x, y) == [n |-> x.n + y.n, unk |-> x.unk + y.unk, t |-> x.t + y.t, f |-> x.f + y.f, dis |-> x.dis + y.dis,
                 wit |-> IF x.dis > 0 THEN x.wit ELSE y.wit, groups |-> x.groups + y.groups, ident |-> x.ident + y.ident,
                 atoms |-> x.atoms + y.atoms]

Verdict(tally) == IF tally.dis > 0 THEN "DISAGREE" ELSE "agree"
Out(r, check, tally, note) ==
  [id |-> r.id, check |-> check, v |-> Verdict(tally), n |-> tally.n, unk |-> tally.unk,
   t |-> tally.t, f |-> tally.f, dis |-> tally.dis, wit |-> tally.wit, groups |-> tally.groups,
   ident |-> tally.ident, atoms |-> tally.atoms, note |-> note]
Skip(r, check, why) == [id |-> r.id, check |-> check, v |-> "skip", n |-> 0, unk |-> 0, t |-> 0, f |-> 0,
                        dis |-> 0, wit |-> <<>>, groups |-> 0, ident |-> 0, atoms |-> 0, note |-> why]

\* ---------------------------------------------------------------- kind "rule": C01 and C08
\* C01: Ground(tau*) =HT= tau-semantics of the rule.   C08: natural =HT= tau*, mu =HT= tau*.
EvalRule(r) ==
  LET gr == RuleGround(r.rule)
      gt == Ground(r.tau, EmptyEnv)
      gm == Ground(r.mu, EmptyEnv)
      hasNat == r.nat.k # "none"
      gn == IF hasNat THEN Ground(r.nat, EmptyEnv) ELSE TT
  IN IF Prop = "C01" THEN <<Out(r, "C01.tau_vs_semantics", HTEquiv(gt, gr, <<>>), "")>>
     ELSE <<Out(r, "C08.mu_vs_tau", HTEquiv(gm, gt, <<>>), ""),
            Out(r, "C08.mu_vs_semantics", HTEquiv(gm, gr, <<>>), "")>>
          \o (IF hasNat THEN <<Out(r, "C08.natural_vs_tau", HTEquiv(gn, gt, <<>>), ""),
                               Out(r, "C08.natural_vs_semantics", HTEquiv(gn, gr, <<>>), "")>>
              ELSE <<Skip(r, "C08.natural_vs_tau", "not regular")>>)

EvalRecord(r) ==
  CASE r.kind = "rule" -> EvalRule(r)
    [] OTHER -> <<Skip(r, "none", r.kind)>>

Init == st = [ph |-> "init"] /\ P = DefaultP
Pick(i) == /\ st.ph = "init"
           /\ st' = [ph |-> "picked", i |-> i]
           /\ P' = ParamsOf(Rec[i])
Eval == /\ st.ph = "picked"
        /\ LET out == EvalRecord(Rec[st.i])
           IN /\ \A k \in DOMAIN out : PrintT(ToJson(out[k]))
              /\ st' = [ph |-> "done", i |-> st.i]
        /\ UNCHANGED P
Next == (\E i \in Lo..Hi : Pick(i)) \/ Eval
Spec == Init /\ [][Next]_vars
=============================================================================
