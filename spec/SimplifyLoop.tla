---------------------------- MODULE SimplifyLoop ----------------------------
(***************************************************************************)
(* The fixpoint strategy of the simplifier (property C18):                 *)
(* convenience/apply/mod.rs, Apply::apply_fixpoint - iterate post-order    *)
(* rewriting with a portfolio until the formula stops changing.            *)
(*                                                                         *)
(* Formulas are abstract identities; `step` is the (deterministic) effect  *)
(* of one pass.  Variables: cur, the formula; seen, the formulas of earlier *)
(* passes; passes, their number; done.  The loop terminates iff the orbit  *)
(* of `step` from the input reaches a fixed point; revisiting an earlier   *)
(* formula that is not the current one means the loop runs forever.        *)
(***************************************************************************)
EXTENDS Integers, Sequences, FiniteSets, TLC
CONSTANTS Ids, Bound
VARIABLES step, cur, seen, passes, done
lvars == <<step, cur, seen, passes, done>>
LInit == /\ step \in [Ids -> Ids] /\ cur \in Ids /\ seen = {} /\ passes = 0 /\ done = FALSE
Pass == /\ ~done /\ step[cur] # cur /\ passes < Bound          \* the driven loop gives up after Bound passes
        /\ seen' = seen \cup {cur} /\ cur' = step[cur] /\ passes' = passes + 1
        /\ UNCHANGED <<step, done>>
Stop == /\ ~done /\ step[cur] = cur /\ done' = TRUE /\ UNCHANGED <<step, cur, seen, passes>>
LNext == Pass \/ Stop
LSpec == LInit /\ [][LNext]_lvars /\ WF_lvars(LNext)
\* what the conformance check demands of an observed pass sequence
NoRevisit == cur \notin seen
Bounded == passes <= Bound
Idempotent == done => step[cur] = cur
\* in the abstract model termination is NOT a theorem (step may cycle): the design check shows that the loop terminates exactly
\* when no formula is revisited, which is what the trace specification tests on real pass sequences
TerminatesIffNoRevisit == []NoRevisit => <>done
=============================================================================
