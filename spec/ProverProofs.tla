---------------------------- MODULE ProverProofs ----------------------------
(***************************************************************************)
(* TLAPS proof, for ANY number of problems, prover instances and outcome   *)
(* classes, that the success flag of `anthem verify` is exact at every     *)
(* moment: it is TRUE iff every result reported so far is "Theorem"        *)
(* (Prover!FlagExact is an inductive invariant of Prover!Spec), and that   *)
(* the flag is only ever cleared (FlagMonotone).  TLC checks the same for  *)
(* small constants (MCProver); this removes the bound for the part of C10  *)
(* that concerns the flag.  Checked with: tlapm --threads 8 ProverProofs.tla*)
(***************************************************************************)
EXTENDS Prover, TLAPS

Res == [p : Nat, o : Outcomes \cup {"SpawnError", "-"}]
WState == [st : {"idle", "taken", "running", "fed", "finished"}, p : Nat, o : Outcomes \cup {"SpawnError", "-"}]
TypeInv == /\ reported \in Seq(Res) /\ chan \in Seq(Res) /\ success \in BOOLEAN
           /\ worker \in [Workers -> WState] /\ outcome \in [Problems -> Outcomes]
           /\ \A w \in Workers : worker[w].st # "idle" => worker[w].p \in Problems
           /\ queue \in Seq(Problems) /\ next \in Nat /\ next >= 1
IInv == TypeInv /\ FlagExact

LEMMA InitInv == Init => IInv
  BY DEF Init, InitCtl, IInv, TypeInv, FlagExact, Idle, WState, Res, Workers, Problems

LEMMA TypeStep == ASSUME TypeInv, [Next]_vars PROVE TypeInv'
  <1> USE DEF TypeInv, Res, WState, Workers, Problems, N, NP
  <1>1. CASE Enqueue BY <1>1 DEF Enqueue
  <1>2. CASE SeqStart BY <1>2 DEF SeqStart
  <1>3. CASE Recv BY <1>3 DEF Recv
  <1>4. CASE Verdict BY <1>4 DEF Verdict
  <1>5. ASSUME NEW w \in Workers, Take(w) PROVE TypeInv' BY <1>5 DEF Take
  <1>6. ASSUME NEW w \in Workers, Spawn(w) PROVE TypeInv' BY <1>6 DEF Spawn
  <1>7. ASSUME NEW w \in Workers, SpawnFail(w) PROVE TypeInv' BY <1>7 DEF SpawnFail
  <1>8. ASSUME NEW w \in Workers, Feed(w) PROVE TypeInv' BY <1>8 DEF Feed
  <1>9. ASSUME NEW w \in Workers, Exit(w) PROVE TypeInv' BY <1>9 DEF Exit
  <1>10. ASSUME NEW w \in Workers, Send(w) PROVE TypeInv' BY <1>10 DEF Send, Idle
  <1>11. CASE UNCHANGED vars BY <1>11 DEF vars
  <1> QED BY <1>1, <1>2, <1>3, <1>4, <1>5, <1>6, <1>7, <1>8, <1>9, <1>10, <1>11 DEF Next, MainStep, WorkerStep

LEMMA RecvFlag == ASSUME TypeInv, FlagExact, Recv PROVE FlagExact'
  <1>1. reported' = Append(reported, Head(chan)) /\ success' = (success /\ Head(chan).o = "Theorem")
    BY DEF Recv
  <1>2. reported \in Seq(Res) /\ Head(chan) \in Res
    BY DEF TypeInv, Recv
  <1> QED BY <1>1, <1>2 DEF FlagExact

LEMMA StepFlag == ASSUME TypeInv, FlagExact, [Next]_vars PROVE FlagExact'
  <1>1. CASE Recv BY <1>1, RecvFlag
  <1>2. CASE UNCHANGED <<reported, success>> BY <1>2 DEF FlagExact
  <1>3. ~Recv => UNCHANGED <<reported, success>>
    BY DEF Next, MainStep, WorkerStep, Enqueue, SeqStart, Verdict, Take, Spawn, SpawnFail, Feed, Exit, Send, vars
  <1> QED BY <1>1, <1>2, <1>3

THEOREM FlagExactInvariant == Init /\ [][Next]_vars => []FlagExact
  <1>1. Init => IInv BY InitInv
  <1>2. IInv /\ [Next]_vars => IInv' BY StepFlag, TypeStep DEF IInv
  <1>3. IInv => FlagExact BY DEF IInv
  <1> QED BY <1>1, <1>2, <1>3, PTL

THEOREM FlagMonotoneHolds == Init /\ [][Next]_vars => FlagMonotone
  <1>1. [Next]_vars => [success' => success]_vars
    BY DEF Next, MainStep, WorkerStep, Enqueue, SeqStart, Verdict, Recv, Take, Spawn, SpawnFail, Feed, Exit, Send, vars
  <1> QED BY <1>1, PTL DEF FlagMonotone
=============================================================================
