----------------------------- MODULE MCAnalysis -----------------------------
(* Design check for Analysis.tla: the two definitions of "the graph has a     *)
(* cycle" agree on every directed graph with at most 4 nodes.                 *)
EXTENDS Analysis
Nodes == 1..4
VARIABLE E
Init == E \in SUBSET (Nodes \X Nodes)
Next == UNCHANGED E
Spec == Init /\ [][Next]_E
TwoDefinitionsAgree == \A N \in {1..k : k \in 1..4} :
                          LET EN == {e \in E : e[1] \in N /\ e[2] \in N} IN CyclicTC(N, EN) = CyclicPeel(N, EN)
=============================================================================
