SPECIFICATION PSpec
CONSTANTS
 Configs <- PGConfigsBig
 Outcomes <- PGOutcomes
 MaxN = 8
INVARIANT Emit
CHECK_DEADLOCK FALSE
