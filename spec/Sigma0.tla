------------------------------- MODULE Sigma0 -------------------------------
(***************************************************************************)
(* The many-sorted target language sigma_0 of anthem (sorts general,       *)
(* integer, symbol) interpreted over the standard domain, and its SOUND    *)
(* BOUNDED EVALUATION (DESIGN.md 4.3/4.4).                                   *)
(*                                                                         *)
(* Formulas are the JSON trees written by the harness (Appendix A):        *)
(*   [k |-> "true"|"false"] | [k |-> "atom", p, args] | [k |-> "cmp", t, g] *)
(*   [k |-> "not", f] | [k |-> "and"|"or"|"imp"|"rimp"|"iff", l, r]         *)
(*   [k |-> "forall"|"exists", vars |-> <<[n, s], ...>>, f]                 *)
(* Ground(F, env) returns a propositional HT tree (PropHT) over the ground *)
(* atoms of a FINITE interpretation base; quantifiers range over a concrete *)
(* window plus abstract "far" elements, so that a definite result (T or F  *)
(* leaf, or a tree without U leaves) is correct for the infinite domain.   *)
(*                                                                         *)
(* The parameters of the bounded evaluation live in the state variable P:  *)
(*   P.dom.i / .s / .g  sequences of values a quantifier of that sort      *)
(*                      ranges over (concrete window, then abstract tail)  *)
(*   P.lo, P.hi         integer arguments of base atoms:  P.lo .. P.hi     *)
(*   P.nbs              symbolic arguments of base atoms: ranks 1 .. P.nbs *)
(*   P.ext              TRUE iff #inf and #sup are arguments of base atoms *)
(***************************************************************************)
EXTENDS PropHT

VARIABLE P

Dom(s) == IF s = "i" THEN P.dom.i ELSE IF s = "s" THEN P.dom.s ELSE P.dom.g

\* parameters for a window wlo..whi, a base lo..hi inside it, ns named symbols, nbs of them in the base
MkParams(wlo, whi, lo, hi, ns, nbs, ext) ==
  LET ints == [j \in 1..(whi - wlo + 1) |-> CInt(wlo + j - 1)] \o <<<<1, -INF, wlo - 1>>, <<1, whi + 1, INF>>>>
      syms == [j \in 1..ns |-> VSym(j)] \o <<VOther>>
  IN [dom |-> [i |-> ints, s |-> syms, g |-> ints \o syms \o <<VInf, VSup>>],
      lo |-> lo, hi |-> hi, nbs |-> nbs, ext |-> ext, wlo |-> wlo, whi |-> whi, ns |-> ns]

InBase(v) == CASE v[1] = 1 -> P.lo <= v[2] /\ v[2] <= P.hi
               [] v[1] = 2 -> v[2] >= 1 /\ v[2] <= P.nbs
               [] OTHER -> P.ext
MaybeInBase(v) == IF v[1] = 1 THEN ~(v[3] < P.lo \/ v[2] > P.hi) ELSE IF IsConc(v) THEN InBase(v) ELSE FALSE
BaseValues == {CInt(n) : n \in P.lo..P.hi} \cup {VSym(r) : r \in 1..P.nbs} \cup (IF P.ext THEN {VInf, VSup} ELSE {})

\* an atom over (possibly abstract) argument values
PAtom(p, args) ==
  IF \A i \in DOMAIN args : IsConc(args[i])
  THEN (IF \A i \in DOMAIN args : InBase(args[i]) THEN [k |-> "a", a |-> <<p, args>>] ELSE FF)
  ELSE (IF \E i \in DOMAIN args : ~MaybeInBase(args[i]) THEN FF ELSE UU)

\* ---------------------------------------------------------------- terms
FcKey(t) == <<t.c, IF t.s = "i" THEN "fi" ELSE IF t.s = "s" THEN "fs" ELSE "fg">>
RECURSIVE TV(_, _)
TV(t, env) ==
  CASE t.k = "num" -> CInt(t.n)
    [] t.k = "var" -> env[<<t.v, t.s>>]
    [] t.k = "fc" -> env[FcKey(t)]
    \* a symbolic constant that the user guide declares as a placeholder denotes the placeholder's value
    [] t.k = "sym" -> IF <<t.c, "ph">> \in DOMAIN env THEN env[<<t.c, "ph">>] ELSE VSym(t.r)
    [] t.k = "inf" -> VInf
    [] t.k = "sup" -> VSup
    [] t.k = "neg" -> NegI(TV(t.a, env))
    [] t.k = "add" -> AddI(TV(t.l, env), TV(t.r, env))
    [] t.k = "sub" -> SubI(TV(t.l, env), TV(t.r, env))
    [] t.k = "mul" -> MulI(TV(t.l, env), TV(t.r, env))

RECURSIVE TVars(_)
TVars(t) == CASE t.k = "var" -> {<<t.v, t.s>>}
              [] t.k = "fc" -> {FcKey(t)}
              [] t.k \in {"num", "sym", "inf", "sup"} -> {}
              [] t.k = "neg" -> TVars(t.a)
              [] OTHER -> TVars(t.l) \cup TVars(t.r)
KeyV(v) == <<v.n, v.s>>
Keys(vars) == {KeyV(vars[i]) : i \in DOMAIN vars}

\* free variables (and function constants) of a formula, as environment keys
RECURSIVE FV(_)
FV(f) == CASE f.k \in {"true", "false"} -> {}
           [] f.k = "atom" -> UNION {TVars(f.args[i]) : i \in DOMAIN f.args}
           [] f.k = "cmp" -> TVars(f.t) \cup UNION {TVars(f.g[i].t) : i \in DOMAIN f.g}
           [] f.k = "not" -> FV(f.f)
           [] f.k \in {"forall", "exists"} -> FV(f.f) \ Keys(f.vars)
           [] OTHER -> FV(f.l) \cup FV(f.r)
IsFcKey(key) == key[2] \in {"fi", "fs", "fg"}
KeySort(key) == IF key[2] \in {"i", "fi"} THEN "i" ELSE IF key[2] \in {"s", "fs"} THEN "s" ELSE "g"

RECURSIVE Conjuncts(_)
Conjuncts(f) == IF f.k = "and" THEN Conjuncts(f.l) \o Conjuncts(f.r) ELSE <<f>>

\* a chained comparison t0 r1 t1 r2 t2 ... is the conjunction of its links
\* lt: the term whose value lhs is.  A term compared with the very same term denotes the same value on both sides in every
\* concretisation, so the link is definite even when the value is abstract (interval comparison alone gives U for  far < far)
RECURSIVE Chain3(_, _, _, _)
Chain3(lt, lhs, guards, env) ==
  IF guards = <<>> THEN "T"
  ELSE LET g == Head(guards)
           r == TV(g.t, env)
           x == IF lt = g.t THEN (IF g.r \in {"eq", "le", "ge"} THEN "T" ELSE "F") ELSE Rel3(g.r, lhs, r)
       IN IF x = "F" THEN "F" ELSE And3(x, Chain3(g.t, r, Tail(guards), env))

\* does value v belong to sort s?  (always definite: tags are known even for abstract values)
SortAdmits(s, v) == IF s = "i" THEN v[1] = 1 ELSE IF s = "s" THEN v[1] = 2 ELSE TRUE

\* a conjunct  key = t  or  t = key  with t evaluable now: the only candidate value for key
DropAt(s, i) == [j \in 1..(Len(s) - 1) |-> IF j < i THEN s[j] ELSE s[j + 1]]
IsDefOf(c, key, bound, unbound) ==
  /\ c.k = "cmp" /\ Len(c.g) = 1 /\ c.g[1].r = "eq"
  /\ \/ (c.t.k = "var" /\ <<c.t.v, c.t.s>> = key /\ TVars(c.g[1].t) \cap (unbound \cup {key}) = {} /\ TVars(c.g[1].t) \subseteq bound)
     \/ (c.g[1].t.k = "var" /\ <<c.g[1].t.v, c.g[1].t.s>> = key /\ TVars(c.t) \cap (unbound \cup {key}) = {} /\ TVars(c.t) \subseteq bound)
DefTerm(c, key) == IF c.t.k = "var" /\ <<c.t.v, c.t.s>> = key THEN c.g[1].t ELSE c.t
FindDef(key, pending, env, unbound) ==
  LET idx == {i \in DOMAIN pending : IsDefOf(pending[i], key, DOMAIN env, unbound)}
  IN IF idx = {} THEN [ok |-> FALSE]
     ELSE LET i == CHOOSE j \in idx : \A m \in idx : j <= m
          IN [ok |-> TRUE, val |-> TV(DefTerm(pending[i], key), env), rest |-> DropAt(pending, i)]

RECURSIVE Ground(_, _), QE(_, _, _, _), QA(_, _, _, _, _), Sched(_, _, _, _, _)

\* evaluate those pending conjuncts that mention none of the still unbound variables of the block
Sched(pending, env, acc, rest, unbound) ==
  IF acc.k = "F" THEN [acc |-> FF, rest |-> <<>>]
  ELSE IF pending = <<>> THEN [acc |-> acc, rest |-> rest]
  ELSE LET c == Head(pending) IN
       IF FV(c) \cap unbound = {}
       THEN LET g == Ground(c, env) IN Sched(Tail(pending), env, PAnd(acc, g), rest, unbound)
       ELSE Sched(Tail(pending), env, acc, Append(rest, c), unbound)

\* exists vars (acc /\ pending)
QE(vars, pending, acc, env) ==
  IF acc.k = "F" THEN FF
  ELSE IF vars = <<>> THEN Sched(pending, env, acc, <<>>, {}).acc
  ELSE LET v == Head(vars)
           key == KeyV(v)
           ub == Keys(Tail(vars))
           def == FindDef(key, pending, env, ub)
       IN IF def.ok
          THEN IF SortAdmits(v.s, def.val)
               THEN LET env2 == (key :> def.val) @@ env
                        s == Sched(def.rest, env2, acc, <<>>, ub)
                    IN QE(Tail(vars), s.rest, s.acc, env2)
               ELSE FF
          ELSE LET D == Dom(v.s)
                   Step[j \in 0..Len(D)] ==
                     IF j = 0 THEN FF
                     ELSE LET prev == Step[j - 1] IN
                          IF prev.k = "T" THEN TT
                          ELSE LET env2 == (key :> D[j]) @@ env
                                   s == Sched(pending, env2, acc, <<>>, ub)
                                   sub == IF s.acc.k = "F" THEN FF ELSE QE(Tail(vars), s.rest, s.acc, env2)
                               IN POr(prev, sub)
               IN Step[Len(D)]

\* forall vars ((acc /\ pending) -> rhs)
QA(vars, pending, acc, rhs, env) ==
  IF acc.k = "F" THEN TT
  ELSE IF vars = <<>> THEN
       LET s == Sched(pending, env, acc, <<>>, {}) IN
       IF s.acc.k = "F" THEN TT ELSE PImp(s.acc, Ground(rhs, env))
  ELSE LET v == Head(vars)
           key == KeyV(v)
           ub == Keys(Tail(vars))
           def == FindDef(key, pending, env, ub)
       IN IF def.ok
          THEN IF SortAdmits(v.s, def.val)
               THEN LET env2 == (key :> def.val) @@ env
                        s == Sched(def.rest, env2, acc, <<>>, ub)
                    IN QA(Tail(vars), s.rest, s.acc, rhs, env2)
               ELSE TT
          ELSE LET D == Dom(v.s)
                   Step[j \in 0..Len(D)] ==
                     IF j = 0 THEN TT
                     ELSE LET prev == Step[j - 1] IN
                          IF prev.k = "F" THEN FF
                          ELSE LET env2 == (key :> D[j]) @@ env
                                   s == Sched(pending, env2, acc, <<>>, ub)
                                   sub == IF s.acc.k = "F" THEN TT ELSE QA(Tail(vars), s.rest, s.acc, rhs, env2)
                               IN PAnd(prev, sub)
               IN Step[Len(D)]

Ground(f, env) ==
  CASE f.k = "true" -> TT
    [] f.k = "false" -> FF
    [] f.k = "atom" -> PAtom(f.p, [i \in DOMAIN f.args |-> TV(f.args[i], env)])
    [] f.k = "cmp" -> Lit3(Chain3(f.t, TV(f.t, env), f.g, env))
    [] f.k = "not" -> PNot(Ground(f.f, env))
    [] f.k = "and" -> LET a == Ground(f.l, env) IN IF a.k = "F" THEN FF ELSE PAnd(a, Ground(f.r, env))
    [] f.k = "or" -> LET a == Ground(f.l, env) IN IF a.k = "T" THEN TT ELSE POr(a, Ground(f.r, env))
    [] f.k = "imp" -> LET a == Ground(f.l, env) IN IF a.k = "F" THEN TT ELSE PImp(a, Ground(f.r, env))
    [] f.k = "rimp" -> LET a == Ground(f.r, env) IN IF a.k = "F" THEN TT ELSE PImp(a, Ground(f.l, env))
    [] f.k = "iff" -> PIff(Ground(f.l, env), Ground(f.r, env))
    [] f.k = "exists" -> QE(f.vars, Conjuncts(f.f), TT, env)
    [] f.k = "forall" -> IF f.f.k = "imp" THEN QA(f.vars, Conjuncts(f.f.l), TT, f.f.r, env)
                         ELSE IF f.f.k = "rimp" THEN QA(f.vars, Conjuncts(f.f.r), TT, f.f.l, env)
                         ELSE QA(f.vars, <<>>, TT, f.f, env)

\* the naive evaluator: no scheduling, no definition binding (reference for the design check MC_Eval)
RECURSIVE Ground0(_, _)
Ground0(f, env) ==
  CASE f.k = "true" -> TT
    [] f.k = "false" -> FF
    [] f.k = "atom" -> PAtom(f.p, [i \in DOMAIN f.args |-> TV(f.args[i], env)])
    [] f.k = "cmp" -> Lit3(Chain3(f.t, TV(f.t, env), f.g, env))
    [] f.k = "not" -> PNot(Ground0(f.f, env))
    [] f.k = "and" -> PAnd(Ground0(f.l, env), Ground0(f.r, env))
    [] f.k = "or" -> POr(Ground0(f.l, env), Ground0(f.r, env))
    [] f.k = "imp" -> PImp(Ground0(f.l, env), Ground0(f.r, env))
    [] f.k = "rimp" -> PImp(Ground0(f.r, env), Ground0(f.l, env))
    [] f.k = "iff" -> PIff(Ground0(f.l, env), Ground0(f.r, env))
    [] f.k \in {"exists", "forall"} ->
         IF f.vars = <<>> THEN Ground0(f.f, env)
         ELSE LET v == Head(f.vars)
                  D == Dom(v.s)
                  inner == [k |-> f.k, vars |-> Tail(f.vars), f |-> f.f]
                  Step[j \in 0..Len(D)] ==
                    IF j = 0 THEN (IF f.k = "exists" THEN FF ELSE TT)
                    ELSE LET sub == Ground0(inner, (KeyV(v) :> D[j]) @@ env)
                         IN IF f.k = "exists" THEN POr(Step[j - 1], sub) ELSE PAnd(Step[j - 1], sub)
              IN Step[Len(D)]

\* all assignments of the given keys (sequence) over their sort domains, as a set of environments
RECURSIVE Envs(_)
Envs(keys) ==
  IF keys = <<>> THEN {<<>>}
  ELSE LET k == Head(keys)
           D == Dom(KeySort(k))
       IN {(k :> D[j]) @@ e : j \in DOMAIN D, e \in Envs(Tail(keys))}
EmptyEnv == <<>>
=============================================================================
