------------------------------ MODULE Analysis ------------------------------
(***************************************************************************)
(* The applicability analyses of anthem (property C11), on the program and *)
(* user-guide trees of Appendix A:                                         *)
(*   tightness        positive predicate dependency graph is acyclic       *)
(*   regularity       every rule is regular as documented in the manual    *)
(*   private recursion, and the preconditions of an external-equivalence   *)
(*   task (src/verifying/task/external_equivalence.rs: the ensure_ checks).          *)
(* Predicates are identified by name AND arity.                            *)
(* Acyclicity is defined twice (reachability closure, and existence of a   *)
(* ranking); MCAnalysis checks that the two agree on every small graph, so *)
(* the oracle is not a single point of failure.                            *)
(***************************************************************************)
EXTENDS Integers, Sequences, FiniteSets, TLC

PredOfAtom(a) == <<a.p, Len(a.args)>>
HeadPred(r) == IF r.head.k = "falsity" THEN <<>> ELSE PredOfAtom(r.head.a)
BodyLits(r) == {i \in DOMAIN r.body : r.body[i].k = "lit"}
BodyPreds(r) == {PredOfAtom(r.body[i].a) : i \in BodyLits(r)}
PosBodyPreds(r) == {PredOfAtom(r.body[i].a) : i \in {j \in BodyLits(r) : r.body[j].sign = 0}}
ProgPreds(rules) == UNION {BodyPreds(rules[i]) \cup (IF HeadPred(rules[i]) = <<>> THEN {} ELSE {HeadPred(rules[i])}) : i \in DOMAIN rules}
HeadPreds(rules) == {HeadPred(rules[i]) : i \in DOMAIN rules} \ {<<>>}

\* ---------------------------------------------------------------- graphs
\* E is a set of pairs <<from, to>> over the node set N
RECURSIVE ReachFrom(_, _, _)
ReachFrom(S, E, seen) ==
  LET next == {e[2] : e \in {x \in E : x[1] \in S}} \ seen
  IN IF next = {} THEN seen ELSE ReachFrom(next, E, seen \cup next)
Reachable(n, E) == ReachFrom({n}, E, {})          \* nodes reachable by a non-empty path
CyclicTC(N, E) == \E n \in N : n \in Reachable(n, E)
\* second definition: repeatedly remove nodes without outgoing edges into the remaining graph
RECURSIVE Peel(_, _)
Peel(N, E) == LET sinks == {n \in N : ~\E e \in E : e[1] = n /\ e[2] \in N}
              IN IF sinks = {} THEN N ELSE Peel(N \ sinks, E)
CyclicPeel(N, E) == Peel(N, E) # {}

PositiveEdges(rules) == UNION {IF HeadPred(rules[i]) = <<>> THEN {} ELSE {<<HeadPred(rules[i]), q>> : q \in PosBodyPreds(rules[i])} : i \in DOMAIN rules}
Tight(rules) == ~CyclicTC(ProgPreds(rules), PositiveEdges(rules))

PrivateEdges(rules, priv) ==
  UNION {IF HeadPred(rules[i]) \in priv THEN {<<HeadPred(rules[i]), q>> : q \in BodyPreds(rules[i]) \cap priv} ELSE {} : i \in DOMAIN rules}
PrivateRecursion(rules, priv) ==
  \/ \E i \in DOMAIN rules : rules[i].head.k = "choice" /\ HeadPred(rules[i]) \in priv
  \/ CyclicTC(priv, PrivateEdges(rules, priv))

\* ---------------------------------------------------------------- regularity (res/manual/src/analyze.md)
RECURSIVE HasSymInfSup(_)
HasSymInfSup(t) == CASE t.k \in {"sym", "inf", "sup"} -> TRUE
                     [] t.k \in {"num", "var"} -> FALSE
                     [] t.k = "neg" -> HasSymInfSup(t.a)
                     [] OTHER -> HasSymInfSup(t.l) \/ HasSymInfSup(t.r)
RECURSIVE FirstKind(_)
FirstKind(t) == CASE t.k \in {"var", "num", "sym", "inf", "sup"} -> TRUE
                  [] t.k = "neg" -> FirstKind(t.a) /\ ~HasSymInfSup(t.a)
                  [] t.k \in {"add", "sub", "mul"} -> FirstKind(t.l) /\ ~HasSymInfSup(t.l) /\ FirstKind(t.r) /\ ~HasSymInfSup(t.r)
                  [] OTHER -> FALSE
SecondKind(t) == t.k = "ivl" /\ FirstKind(t.l) /\ ~HasSymInfSup(t.l) /\ FirstKind(t.r) /\ ~HasSymInfSup(t.r)
RegularBodyElem(b) ==
  IF b.k = "lit" THEN \A i \in DOMAIN b.a.args : FirstKind(b.a.args[i])
  ELSE \/ FirstKind(b.l) /\ FirstKind(b.rt)
       \/ b.r = "eq" /\ FirstKind(b.l) /\ SecondKind(b.rt)
RegularRule(r) ==
  /\ \A i \in DOMAIN r.body : RegularBodyElem(r.body[i])
  /\ r.head.k = "falsity" \/ \A i \in DOMAIN r.head.a.args : FirstKind(r.head.a.args[i]) \/ SecondKind(r.head.a.args[i])
Regular(rules) == \A i \in DOMAIN rules : RegularRule(rules[i])
=============================================================================
