SPECIFICATION PSpec
CONSTANT MaxProblems = 3
INVARIANT NoObligationBeforeAcceptance
INVARIANT FilesBeforeProvers
INVARIANT VerdictAfterAllStarted
INVARIANT ExitCodes
INVARIANT ObsRight
PROPERTY Terminates
CHECK_DEADLOCK FALSE
