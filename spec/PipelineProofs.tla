--------------------------- MODULE PipelineProofs ---------------------------
(***************************************************************************)
(* TLAPS proof that the stage discipline of `anthem verify` (Pipeline.tla) *)
(* holds for ANY number of problems: NoObligationBeforeAcceptance,         *)
(* FilesBeforeProvers and VerdictAfterAllStarted are invariants of PSpec.  *)
(* TLC checks them for MaxProblems = 3 (MCPipeline); the proof removes the *)
(* bound.  Checked with: tlapm --threads 8 PipelineProofs.tla              *)
(***************************************************************************)
EXTENDS Pipeline, TLAPS

Past == {"accepted", "proving", "finishing"}
\* the inductive strengthening: where the control is tells which counters can have moved
IInv == /\ pc \in {"start", "sorted", "loaded", "accepted", "proving", "finishing", "exited"}
        /\ flags \in [save : BOOLEAN, prove : BOOLEAN]
        /\ np \in Nat /\ nsaved \in Nat /\ nstarted \in Nat /\ verdict \in BOOLEAN
        /\ nsaved <= np /\ nstarted <= np
        /\ pc \in {"start", "sorted", "loaded"} => nsaved = 0 /\ nstarted = 0 /\ ~verdict
        /\ pc \in {"sorted", "loaded"} => "usage" \notin fault /\ "sort" \notin fault
        /\ pc = "loaded" => "load" \notin fault
        /\ pc \in Past => fault \cap Early = {}
        /\ pc = "accepted" => nstarted = 0 /\ ~verdict
        /\ pc = "proving" => ~verdict /\ (flags.save => nsaved = np)
        /\ (nsaved > 0 \/ nstarted > 0 \/ verdict) => fault \cap Early = {}
        /\ (nstarted > 0 /\ flags.save) => nsaved = np
        /\ verdict => nstarted = np

LEMMA InitInv == PInit => IInv
  BY DEF PInit, IInv, Early, Past

LEMMA StepInv == ASSUME IInv, [PNext]_pvars PROVE IInv'
  <1> USE DEF IInv, Early, Past, Exit, Goto
  <1>1. CASE Usage BY <1>1 DEF Usage
  <1>2. CASE Sort BY <1>2 DEF Sort
  <1>3. CASE Load BY <1>3 DEF Load
  <1>4. CASE Decide BY <1>4 DEF Decide
  <1>5. CASE SaveOne
    <2>1. CASE "savedir" \in fault BY <1>5, <2>1 DEF SaveOne
    <2>2. CASE "savedir" \notin fault BY <1>5, <2>2 DEF SaveOne
    <2> QED BY <2>1, <2>2
  <1>6. CASE SaveDone BY <1>6 DEF SaveDone
  <1>7. CASE StartOne BY <1>7 DEF StartOne
  <1>8. CASE Verdict BY <1>8 DEF Verdict
  <1>9. CASE Finish BY <1>9 DEF Finish
  <1>10. CASE UNCHANGED pvars BY <1>10 DEF pvars
  <1> QED BY <1>1, <1>2, <1>3, <1>4, <1>5, <1>6, <1>7, <1>8, <1>9, <1>10 DEF PNext

THEOREM StageDiscipline == PInit /\ [][PNext]_pvars => [](NoObligationBeforeAcceptance /\ FilesBeforeProvers /\ VerdictAfterAllStarted)
  <1>1. PInit => IInv BY InitInv
  <1>2. IInv /\ [PNext]_pvars => IInv' BY StepInv
  <1>3. IInv => NoObligationBeforeAcceptance /\ FilesBeforeProvers /\ VerdictAfterAllStarted
    BY DEF IInv, NoObligationBeforeAcceptance, FilesBeforeProvers, VerdictAfterAllStarted
  <1> QED BY <1>1, <1>2, <1>3, PTL
=============================================================================
