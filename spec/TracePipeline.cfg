SPECIFICATION TSpec
CONSTANT MaxProblems = 40
CONSTRAINT Report
INVARIANT Inv
CHECK_DEADLOCK FALSE
