SPECIFICATION TraceSpec
CONSTANTS
 Configs = {}
 Outcomes = {}
 MaxN = 8
INVARIANTS Collect AtMostN NeverTwice FlagExact AnnouncedInOrder PoolAnnouncesFirst
CHECK_DEADLOCK FALSE
