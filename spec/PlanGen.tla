------------------------------- MODULE PlanGen -------------------------------
(***************************************************************************)
(* Specification -> implementation direction for C10: every maximal        *)
(* behaviour of Prover.tla is a PLAN for a run of the real binary - the     *)
(* configuration, what each prover run does, and the order in which the    *)
(* provers finish (history variable `exits`).  TLC prints one plan per     *)
(* final state; the orchestrator replays them against anthem with a        *)
(* stand-in prover that is steered (by delays) towards that order.         *)
(***************************************************************************)
EXTENDS Prover, Json
VARIABLE exits
PInit == Init /\ exits = <<>>
PNext == \/ \E w \in Workers : Exit(w) /\ exits' = Append(exits, worker[w].p)
         \/ /\ \/ MainStep
               \/ \E w \in Workers : Take(w) \/ Spawn(w) \/ SpawnFail(w) \/ Feed(w) \/ Send(w)
            /\ UNCHANGED exits
PSpec == PInit /\ [][PNext]_<<vars, exits>>
Emit == done => PrintT(ToJson([np |-> NP, n |-> N, spawnOk |-> SpawnOk, outcome |-> outcome, exits |-> exits,
                               reported |-> [k \in DOMAIN reported |-> reported[k].p]]))
\* abstract outcome classes: T = Theorem, S = some other status word or no recognisable status, E = error
PGOutcomes == {"T", "S", "E"}
PGConfigsSmall == {[np |-> p, n |-> k, spawnOk |-> TRUE] : p \in 2..3, k \in 1..3}
PGConfigsBig == {[np |-> p, n |-> k, spawnOk |-> TRUE] : p \in 4..7, k \in {2, 3, 4, 8}}
=============================================================================
