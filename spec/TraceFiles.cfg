SPECIFICATION TSpec
CHECK_DEADLOCK FALSE
