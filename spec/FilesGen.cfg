SPECIFICATION GSpec
CHECK_DEADLOCK FALSE
