------------------------------ MODULE FilesGen ------------------------------
(***************************************************************************)
(* Specification -> implementation for C20: TLC derives argument layouts   *)
(* (files, nested directories, missing paths) from Files.tla's vocabulary   *)
(* with a seeded linear congruential stream (one layout per step, as in    *)
(* Gen.tla) and prints each with the role assignment the model predicts.   *)
(***************************************************************************)
EXTENDS Files, Json, IOUtils
Count == atoi(IOEnv.GEN_COUNT)
Seed0 == atoi(IOEnv.VERIF_SEED)
Nx(sd) == <<(sd[1] * 1103 + 12347) % 46337, (sd[2] * 2311 + 9973) % 46309>>
Val(sd) == sd[1] + sd[2]
Pick(sd, seq) == seq[(Val(sd) % Len(seq)) + 1]
Mix(sd, k) == Nx(<<(sd[1] + 7 * k) % 46337, (sd[2] + 13 * k) % 46309>>)
Start == Nx(Nx(<<(Seed0 * 31 + 17) % 46337, (Seed0 * 57 + 5) % 46309>>))

\* weighted towards programs; every name of the pool occurs
FilePool == <<Idx("B.lp"), Idx("a-b.lp"), Idx("a.lp"), Idx("z.lp"), Idx("e.spec.lp"), Idx("a.lp"), Idx("z.lp"), Idx("B.lp"), Idx("a.spec"),
              Idx("o.spec"), Idx("m.ug"), Idx("y.ug"), Idx("n.po"), Idx(".lp"), Idx("c.lp.bak"), Idx("d.LP"), Idx("zz"), Idx("a-b.lp"),
              Idx("m.ug"), Idx("a.spec"), Idx(".h.lp"), Idx(".h.lp")>>
\* k distinct entries (by name) for a directory
RECURSIVE Entries(_, _, _, _)
Item(sd, depth) ==
  LET c == Val(sd) % 100
      s1 == Nx(sd)
  IN IF c < 62 \/ depth = 0 THEN [it |-> [k |-> "f", n |-> Pick(s1, FilePool)], sd |-> Nx(s1)]
     ELSE IF c < 64 THEN (IF depth = 2 THEN [it |-> [k |-> "x", n |-> Idx("zz")], sd |-> s1] ELSE [it |-> [k |-> "f", n |-> Idx("zz")], sd |-> s1])
     ELSE LET dn == Pick(s1, <<Idx("dir"), Idx("sub"), Idx("dir"), Idx(".hid")>>)
              cnt == Val(Nx(s1)) % 4
              es == Entries(Nx(Nx(s1)), cnt, depth - 1, {})
          IN [it |-> [k |-> "d", n |-> dn, es |-> es.es], sd |-> es.sd]
Entries(sd, k, depth, used) ==
  IF k = 0 THEN [es |-> <<>>, sd |-> sd]
  ELSE LET x == Item(sd, depth)
       IN IF x.it.n \in used THEN Entries(x.sd, k - 1, depth, used)
          ELSE LET r == Entries(x.sd, k - 1, depth, used \cup {x.it.n}) IN [es |-> <<x.it>> \o r.es, sd |-> r.sd]
RECURSIVE Args(_, _)
Args(sd, k) == IF k = 0 THEN [l |-> <<>>, sd |-> sd]
               ELSE LET x == Item(sd, 2) r == Args(x.sd, k - 1) IN [l |-> <<x.it>> \o r.l, sd |-> r.sd]
InsAt(s, i, x) == SubSeq(s, 1, i) \o <<x>> \o SubSeq(s, i + 1, Len(s))
\* most layouts get the kinds an external task needs, at a random position
Extra(l, sd, pct, pool) == IF Val(sd) % 100 < pct THEN InsAt(l, Val(Nx(sd)) % (Len(l) + 1), [k |-> "f", n |-> Pick(Nx(Nx(sd)), pool)]) ELSE l
LayoutCase(n, sd) ==
  LET k == 1 + (Val(sd) % 4)
      a == Args(Nx(sd), k)
      l1 == Extra(a.l, a.sd, 70, <<Idx("m.ug"), Idx("y.ug")>>)
      l2 == Extra(l1, Nx(Nx(Nx(a.sd))), 30, <<Idx("a.spec"), Idx("o.spec")>>)
      l == Extra(l2, Nx(Mix(a.sd, 5)), 25, <<Idx("n.po")>>)
  IN [id |-> "L" \o ToString(n), layout |-> l, strong |-> StrongRoles(l), external |-> ExternalRoles(l),
      visited |-> Visited(l), names |-> Names]
VARIABLES n, sd
GInit == n = 0 /\ sd = Start
GNext == /\ n < Count
         /\ PrintT(ToJson(LayoutCase(n, sd)))
         /\ n' = n + 1 /\ sd' = Mix(sd, n)
GSpec == GInit /\ [][GNext]_<<n, sd>>
=============================================================================
