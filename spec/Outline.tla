------------------------------- MODULE Outline -------------------------------
(***************************************************************************)
(* Proof outlines (property C13): src/verifying/outline/mod.rs and the     *)
(* loop of AssembledExternalEquivalenceTask::decompose.                    *)
(*                                                                         *)
(* (1) SEQUENCING, as a state machine.  For one direction the code keeps a *)
(* growing list of axioms: the premises and the accepted definitions of    *)
(* the direction first; then, lemma by lemma, it emits one problem per     *)
(* conjecture of the lemma (a plain lemma has one, an inductive lemma its  *)
(* base case and its inductive step) and only afterwards admits the lemma  *)
(* as an axiom.  NoUnjustifiedAxiom: whenever a lemma is an axiom of a     *)
(* problem, all problems establishing it were emitted before.              *)
(*                                                                         *)
(* (2) ACCEPTANCE of definitions and inductive lemmas, as predicates on    *)
(* the formula trees of Appendix A (DefWhy / IndWhy return "" or the first *)
(* violated condition).                                                    *)
(***************************************************************************)
EXTENDS Integers, Sequences, FiniteSets, TLC

\* ---------------------------------------------------------------- (1) sequencing model (abstract entries)
CONSTANT Outlines          \* set of outlines; an outline is a sequence of [kind, dir]; kind: "lemma" | "inductive" | "definition"
VARIABLES outline, d, pos, axioms, emitted, phase
ovars == <<outline, d, pos, axioms, emitted, phase>>
Applies(e, dir) == e.dir = "universal" \/ e.dir = dir
NConj(e) == IF e.kind = "inductive" THEN 2 ELSE 1
IsLemma(e) == e.kind \in {"lemma", "inductive"}
Defs(o, dir) == {i \in DOMAIN o : o[i].kind = "definition" /\ Applies(o[i], dir)}
OInit == /\ outline \in Outlines /\ d \in {"forward", "backward"}
         /\ pos = 1 /\ axioms = Defs(outline, d) /\ emitted = <<>> /\ phase = "lemmas"
\* entries that are not lemmas of this direction are skipped
Skip == /\ phase = "lemmas" /\ pos <= Len(outline) /\ ~(IsLemma(outline[pos]) /\ Applies(outline[pos], d))
        /\ pos' = pos + 1 /\ UNCHANGED <<outline, d, axioms, emitted, phase>>
\* all conjecture problems of the lemma are emitted with the axioms collected so far, then the lemma is admitted
EmitAndAdmit == /\ phase = "lemmas" /\ pos <= Len(outline) /\ IsLemma(outline[pos]) /\ Applies(outline[pos], d)
                /\ emitted' = emitted \o [j \in 1..NConj(outline[pos]) |-> [kind |-> "outline", lemma |-> pos, conj |-> j, axioms |-> axioms]]
                /\ axioms' = axioms \cup {pos}
                /\ pos' = pos + 1 /\ UNCHANGED <<outline, d, phase>>
\* the final problem of the direction uses the consequences of all its lemmas
EmitMain == /\ phase = "lemmas" /\ pos > Len(outline)
            /\ emitted' = Append(emitted, [kind |-> "main", lemma |-> 0, conj |-> 0,
                                            axioms |-> {i \in DOMAIN outline : IsLemma(outline[i]) /\ Applies(outline[i], d)}])
            /\ phase' = "done" /\ UNCHANGED <<outline, d, pos, axioms>>
ONext == Skip \/ EmitAndAdmit \/ EmitMain
OSpec == OInit /\ [][ONext]_ovars

\* every problem establishing lemma l precedes position k
Established(l, k) == \A j \in 1..NConj(outline[l]) : \E m \in 1..(k - 1) : emitted[m].kind = "outline" /\ emitted[m].lemma = l /\ emitted[m].conj = j
NoUnjustifiedAxiom ==
  \A k \in DOMAIN emitted : \A a \in emitted[k].axioms :
     /\ Applies(outline[a], d)
     /\ IsLemma(outline[a]) => Established(a, k)
EveryLemmaEstablished ==
  phase = "done" => \A l \in DOMAIN outline : IsLemma(outline[l]) /\ Applies(outline[l], d) => Established(l, Len(emitted))
=============================================================================
