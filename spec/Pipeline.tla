------------------------------ MODULE Pipeline ------------------------------
(***************************************************************************)
(* The stages of `anthem verify` in the order of the code                  *)
(* (command_line/procedures.rs, Command::Verify), one action per `?` exit: *)
(*                                                                         *)
(*   start --Usage--> exited(2)          clap rejects the command line     *)
(*   start --Sort--> sorted | exited(1)  Files::sort (walkdir error)       *)
(*   sorted --Load--> loaded | exited(1) a role is missing / a file does   *)
(*                                       not parse                         *)
(*   loaded --Decide--> accepted(np) | exited(1)                           *)
(*                                       Task::decompose: the applicability*)
(*                                       checks, then the np problems      *)
(*   accepted --SaveOne*--> ...          --save-problems: one file per     *)
(*                                       problem, `?` on the first failure *)
(*   ... --StartOne* / Verdict-->        unless --no-proof-search: every   *)
(*                                       problem is fed to a prover, then  *)
(*                                       one verdict line                  *)
(*   --> exited(0)                                                         *)
(*                                                                         *)
(* The faults a run meets and the flags it is given are chosen in Init, so *)
(* that a behaviour is a function of them: Obs is the observation the real *)
(* binary must produce for the same faults and flags (spec -> impl), and   *)
(* the invariants are the stage discipline of property C11: no obligation  *)
(* (problem file, prover start, verdict) exists before the task has been   *)
(* accepted, files are complete before the first prover starts.            *)
(***************************************************************************)
EXTENDS Integers, Sequences, FiniteSets, TLC
CONSTANT MaxProblems
FaultNames == {"usage", "sort", "load", "refuse", "savedir"}
VARIABLES pc, fault, flags, np, nsaved, nstarted, verdict, code
pvars == <<pc, fault, flags, np, nsaved, nstarted, verdict, code>>

PInit == /\ pc = "start"
         /\ fault \in SUBSET FaultNames
         /\ flags \in [save : BOOLEAN, prove : BOOLEAN]
         /\ np \in 0..MaxProblems            \* what decompose will return if the task is accepted
         /\ nsaved = 0 /\ nstarted = 0 /\ verdict = FALSE /\ code = -1
Exit(c) == pc' = "exited" /\ code' = c /\ UNCHANGED <<fault, flags, np, nsaved, nstarted, verdict>>
Goto(p) == pc' = p /\ UNCHANGED <<fault, flags, np, nsaved, nstarted, verdict, code>>
Usage == pc = "start" /\ "usage" \in fault /\ Exit(2)
Sort == pc = "start" /\ "usage" \notin fault /\ IF "sort" \in fault THEN Exit(1) ELSE Goto("sorted")
Load == pc = "sorted" /\ IF "load" \in fault THEN Exit(1) ELSE Goto("loaded")
Decide == pc = "loaded" /\ IF "refuse" \in fault THEN Exit(1) ELSE Goto("accepted")
\* the first File::create fails when the directory does not exist
SaveOne == /\ pc = "accepted" /\ flags.save /\ nsaved < np
           /\ IF "savedir" \in fault THEN Exit(1)
              ELSE nsaved' = nsaved + 1 /\ UNCHANGED <<pc, fault, flags, np, nstarted, verdict, code>>
SaveDone == pc = "accepted" /\ (~flags.save \/ nsaved = np) /\ Goto(IF flags.prove THEN "proving" ELSE "finishing")
StartOne == /\ pc = "proving" /\ nstarted < np
            /\ nstarted' = nstarted + 1 /\ UNCHANGED <<pc, fault, flags, np, nsaved, verdict, code>>
Verdict == /\ pc = "proving" /\ nstarted = np
           /\ verdict' = TRUE /\ pc' = "finishing" /\ UNCHANGED <<fault, flags, np, nsaved, nstarted, code>>
Finish == pc = "finishing" /\ Exit(0)
PNext == Usage \/ Sort \/ Load \/ Decide \/ SaveOne \/ SaveDone \/ StartOne \/ Verdict \/ Finish
PSpec == PInit /\ [][PNext]_pvars /\ WF_pvars(PNext)

Early == {"usage", "sort", "load", "refuse"}
\* C11: an obligation exists only for an accepted task
NoObligationBeforeAcceptance == (nsaved > 0 \/ nstarted > 0 \/ verdict) => fault \cap Early = {}
FilesBeforeProvers == (nstarted > 0 /\ flags.save) => nsaved = np
VerdictAfterAllStarted == verdict => nstarted = np
ExitCodes == pc = "exited" => /\ code \in {0, 1, 2}
                              /\ code = 2 <=> "usage" \in fault
                              /\ code = 0 <=> (fault \cap Early = {} /\ ~("savedir" \in fault /\ flags.save /\ np > 0))
                              /\ verdict <=> (code = 0 /\ flags.prove)
Terminates == <>(pc = "exited")

\* the observation of a complete behaviour, as a function of faults, flags and np (checked against the state machine by ObsRight)
Obs(F, fl, n) ==
  IF "usage" \in F THEN [code |-> 2, nsaved |-> 0, nstarted |-> 0, verdict |-> FALSE]
  ELSE IF F \cap Early # {} THEN [code |-> 1, nsaved |-> 0, nstarted |-> 0, verdict |-> FALSE]
  ELSE IF "savedir" \in F /\ fl.save /\ n > 0 THEN [code |-> 1, nsaved |-> 0, nstarted |-> 0, verdict |-> FALSE]
  ELSE [code |-> 0, nsaved |-> IF fl.save THEN n ELSE 0, nstarted |-> IF fl.prove THEN n ELSE 0, verdict |-> fl.prove]
ObsRight == pc = "exited" => Obs(fault, flags, np) = [code |-> code, nsaved |-> nsaved, nstarted |-> nstarted, verdict |-> verdict]
=============================================================================
