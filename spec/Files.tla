-------------------------------- MODULE Files --------------------------------
(***************************************************************************)
(* How `anthem verify` assigns roles to its file arguments (property C20): *)
(* src/command_line/files.rs (Files::sort and the role accessors) and the  *)
(* Command::Verify arm of procedures.rs.                                   *)
(*                                                                         *)
(* A LAYOUT is the sequence of command-line arguments; an argument is      *)
(*   [k |-> "f", n |-> i]                  an existing file named Names[i] *)
(*   [k |-> "d", n |-> i, es |-> <<..>>]   a directory with entries es     *)
(*   [k |-> "x", n |-> i]                  a path that does not exist      *)
(* Names is a fixed pool listed in BYTE ORDER of the file names (TLC cannot *)
(* compare strings; the orchestrator re-checks the order), so "comes       *)
(* before in file-name order" is "has the smaller index".  The pool is     *)
(* adversarial: the order of the full names differs from the order of the  *)
(* stems (a-b.lp < a.lp), upper case sorts before lower case, and several  *)
(* names only look like they had one of the four extensions.               *)
(*                                                                         *)
(* The walk is modelled operationally (one action per visited entry, as    *)
(* the loop over WalkDir does) and declaratively (Walk); the design check  *)
(* MCFiles shows the two agree and checks the listed properties for every  *)
(* layout of a bounded universe.                                           *)
(***************************************************************************)
EXTENDS Integers, Sequences, FiniteSets, SequencesExt, TLC

Names == <<".h.lp", ".hid", ".lp", "B.lp", "a-b.lp", "a.lp", "a.spec", "c.lp.bak", "d.LP", "dir", "e.spec.lp", "m.ug", "n.po", "o.spec",
           "sub", "y.ug", "z.lp", "zz">>
\* the extension as Path::extension() sees it: text after the last dot of a name that does not start with its only dot
Ext == <<"lp", "", "", "lp", "lp", "lp", "spec", "bak", "LP", "", "lp", "ug", "po", "spec", "", "ug", "lp", "">>
Idx(name) == CHOOSE i \in DOMAIN Names : Names[i] = name
DirNames == {Idx(".hid"), Idx("dir"), Idx("sub")}
FileNames == DOMAIN Names \ DirNames

\* ---------------------------------------------------------------- declarative: the files in the order anthem sees them
\* paths are sequences of name indices
RECURSIVE Walk(_, _)
Walk(item, prefix) ==
  IF item.k = "f" THEN <<Append(prefix, item.n)>>
  ELSE IF item.k = "x" THEN <<>>
  ELSE LET sorted == SortSeq(item.es, LAMBDA x, y : x.n < y.n)
       IN FlattenSeq([j \in DOMAIN sorted |-> Walk(sorted[j], Append(prefix, item.n))])
\* only an ARGUMENT can name a path that does not exist (a directory has no non-existing entries)
HasMissing(item) == item.k = "x"
Visited(layout) == FlattenSeq([j \in DOMAIN layout |-> Walk(layout[j], <<>>)])
WalkFails(layout) == \E j \in DOMAIN layout : HasMissing(layout[j])
ExtOf(path) == Ext[path[Len(path)]]
Bucket(layout, e) == SelectSeq(Visited(layout), LAMBDA p : ExtOf(p) = e)
None == <<>>
Nth(s, k) == IF Len(s) >= k THEN s[k] ELSE None

\* role assignment: a record, or [error |-> TRUE]
Err == [error |-> TRUE]
StrongRoles(layout) ==
  LET lp == Bucket(layout, "lp") IN
  IF WalkFails(layout) \/ Len(lp) < 2 THEN Err
  ELSE [error |-> FALSE, left |-> lp[1], right |-> lp[2]]
ExternalRoles(layout) ==
  LET lp == Bucket(layout, "lp")
      sp == Bucket(layout, "spec")
      ug == Bucket(layout, "ug")
      po == Bucket(layout, "po")
      spec == IF sp # <<>> THEN sp[1] ELSE Nth(lp, 1)
      prog == IF sp # <<>> THEN Nth(lp, 1) ELSE Nth(lp, 2)
  IN IF WalkFails(layout) \/ spec = None \/ prog = None \/ ug = <<>> THEN Err
     ELSE [error |-> FALSE, spec |-> spec, program |-> prog, ug |-> ug[1], po |-> Nth(po, 1)]

\* ---------------------------------------------------------------- properties of the role assignment (C20)
\* the programs of a layout in the order anthem sees them, and the same for the other kinds
Progs(l) == Bucket(l, "lp")
\* swapping the first two programs (by swapping the two ARGUMENTS that contain them) swaps left and right
SwapArgs(l, a, b) == [j \in DOMAIN l |-> IF j = a THEN l[b] ELSE IF j = b THEN l[a] ELSE l[j]]
SwapProperty(l) ==
  \A a, b \in DOMAIN l :
     (a < b /\ l[a].k = "f" /\ l[b].k = "f" /\ Ext[l[a].n] = "lp" /\ Ext[l[b].n] = "lp"
            /\ Len(Progs(l)) = 2 /\ ~WalkFails(l))
     => LET m == SwapArgs(l, a, b)
            s1 == StrongRoles(l) s2 == StrongRoles(m)
            e1 == ExternalRoles(l) e2 == ExternalRoles(m)
        IN /\ s2.left = s1.right /\ s2.right = s1.left
           /\ (Bucket(l, "spec") = <<>> /\ ~e1.error => e2.spec = e1.program /\ e2.program = e1.spec /\ e2.ug = e1.ug /\ e2.po = e1.po)
\* swapping two adjacent arguments of which at least one contains no program changes no role, provided the layout has at
\* most one file of each of the kinds .spec, .ug, .po (the property does not say which of several wins)
NoProg(item) == \A p \in Range(Walk(item, <<>>)) : ExtOf(p) # "lp"
UniqueKinds(l) == \A e \in {"spec", "ug", "po"} : Len(Bucket(l, e)) <= 1
MoveProperty(l) ==
  \A a \in 1..(Len(l) - 1) :
     ((NoProg(l[a]) \/ NoProg(l[a + 1])) /\ UniqueKinds(l) /\ ~WalkFails(l))
     => LET m == SwapArgs(l, a, a + 1)
        IN StrongRoles(m) = StrongRoles(l) /\ ExternalRoles(m) = ExternalRoles(l)
=============================================================================
