------------------------------ MODULE MCProver ------------------------------
(* Design check of Prover.tla (C10): small constants, every interleaving.   *)
EXTENDS Prover
MCConfigs == {[np |-> p, n |-> k, spawnOk |-> s] : p \in 1..3, k \in 1..3, s \in BOOLEAN}
MCConfigsBig == {[np |-> p, n |-> k, spawnOk |-> s] : p \in {4, 5}, k \in {2, 3, 5}, s \in BOOLEAN}
MCOutcomesBig == {"Theorem", "Missing"}
MCOutcomes == {"Theorem", "CounterSatisfiable", "Missing", "BadUtf8"}
=============================================================================
