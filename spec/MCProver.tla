------------------------------ MODULE MCProver ------------------------------
(* Design check of Prover.tla (C10): small constants, every interleaving.   *)
EXTENDS Prover
MCConfigs == {[np |-> p, n |-> k, spawnOk |-> s] : p \in 1..3, k \in 1..3, s \in BOOLEAN}
MCOutcomes == {"Theorem", "CounterSatisfiable", "Missing", "BadUtf8"}
=============================================================================
