SPECIFICATION OSpec
CONSTANT Outlines <- MCOutlines
INVARIANTS NoUnjustifiedAxiom EveryLemmaEstablished
CHECK_DEADLOCK FALSE
