------------------------------- MODULE PropHT -------------------------------
(***************************************************************************)
(* Propositional here-and-there trees with three-valued leaves, in a       *)
(* normal form that makes structurally different but trivially equal       *)
(* groundings identical:                                                   *)
(*   [k |-> "T" | "F" | "U"]                    constants (U = unknown)    *)
(*   [k |-> "a", a |-> <<pred, args>>]          ground atom                *)
(*   [k |-> "not", f] | [k |-> "imp", l, r]                                 *)
(*   [k |-> "and" | "or", s |-> SET of trees]   flattened, no duplicates    *)
(* An HT interpretation is a pair of sets of ground atoms H \subseteq T.    *)
(* Truth values are 0 (F), 1 (U), 2 (T): Kleene and / or / not are          *)
(* min / max / 2 - x.                                                       *)
(***************************************************************************)
EXTENDS Values, FiniteSetsExt

TT == [k |-> "T"]
FF == [k |-> "F"]
UU == [k |-> "U"]
Lit3(x) == IF x = "T" THEN TT ELSE IF x = "F" THEN FF ELSE UU
Parts(k, a) == IF a.k = k THEN a.s ELSE {a}
MkSet(k, S) == IF Cardinality(S) = 1 THEN CHOOSE x \in S : TRUE ELSE [k |-> k, s |-> S]
PAnd(a, b) == IF a.k = "F" \/ b.k = "F" THEN FF ELSE IF a.k = "T" THEN b ELSE IF b.k = "T" THEN a
              ELSE MkSet("and", Parts("and", a) \cup Parts("and", b))
POr(a, b) == IF a.k = "T" \/ b.k = "T" THEN TT ELSE IF a.k = "F" THEN b ELSE IF b.k = "F" THEN a
             ELSE MkSet("or", Parts("or", a) \cup Parts("or", b))
\* only definite antecedents / consequents fold
PImp(a, b) == IF a.k = "F" \/ b.k = "T" THEN TT ELSE IF a.k = "T" THEN b ELSE [k |-> "imp", l |-> a, r |-> b]
PNot(a) == IF a.k = "F" THEN TT ELSE IF a.k = "T" THEN FF ELSE [k |-> "not", f |-> a]
PIff(a, b) == PAnd(PImp(a, b), PImp(b, a))

RECURSIVE PAtoms(_)
PAtoms(f) == CASE f.k \in {"T", "F", "U"} -> {}
               [] f.k = "a" -> {f.a}
               [] f.k = "not" -> PAtoms(f.f)
               [] f.k = "imp" -> PAtoms(f.l) \cup PAtoms(f.r)
               [] OTHER -> UNION {PAtoms(x) : x \in f.s}

RECURSIVE PSize(_)
PSize(f) == CASE f.k \in {"T", "F", "U", "a"} -> 1
              [] f.k = "not" -> 1 + PSize(f.f)
              [] f.k = "imp" -> 1 + PSize(f.l) + PSize(f.r)
              [] OTHER -> FoldSet(LAMBDA x, acc : acc + PSize(x), 1, f.s)

\* prefix the predicate name of every atom (h-/t-copies of gamma)
RECURSIVE PPrefix(_, _)
PPrefix(f, pfx) ==
  CASE f.k \in {"T", "F", "U"} -> f
    [] f.k = "a" -> [k |-> "a", a |-> <<pfx \o f.a[1], f.a[2]>>]
    [] f.k = "not" -> [k |-> "not", f |-> PPrefix(f.f, pfx)]
    [] f.k = "imp" -> [k |-> "imp", l |-> PPrefix(f.l, pfx), r |-> PPrefix(f.r, pfx)]
    [] OTHER -> [k |-> f.k, s |-> {PPrefix(x, pfx) : x \in f.s}]

\* ---------------------------------------------------------------- evaluation
Mn(a, b) == IF a < b THEN a ELSE b
Mx(a, b) == IF a > b THEN a ELSE b
\* atoms replaced by their number under ix
RECURSIVE IndexTree(_, _)
IndexTree(f, ix) ==
  CASE f.k \in {"T", "F", "U"} -> f
    [] f.k = "a" -> [k |-> "a", a |-> ix[f.a]]
    [] f.k = "not" -> [k |-> "not", f |-> IndexTree(f.f, ix)]
    [] f.k = "imp" -> [k |-> "imp", l |-> IndexTree(f.l, ix), r |-> IndexTree(f.r, ix)]
    [] OTHER -> [k |-> f.k, s |-> {IndexTree(x, ix) : x \in f.s}]
\* here * 3 + there, in one traversal;  (H, T) with H \subseteq T
RECURSIVE PS2(_, _, _)
PS2(f, H, T) ==
  CASE f.k = "a" -> (IF f.a \in H THEN 6 ELSE 0) + (IF f.a \in T THEN 2 ELSE 0)
    [] f.k = "and" -> FoldSet(LAMBDA x, acc : LET v == PS2(x, H, T) IN Mn(acc \div 3, v \div 3) * 3 + Mn(acc % 3, v % 3), 8, f.s)
    [] f.k = "or" -> FoldSet(LAMBDA x, acc : LET v == PS2(x, H, T) IN Mx(acc \div 3, v \div 3) * 3 + Mx(acc % 3, v % 3), 0, f.s)
    [] f.k = "imp" -> LET a == PS2(f.l, H, T) b == PS2(f.r, H, T)
                          there == Mx(2 - (a % 3), b % 3)
                          here == Mn(Mx(2 - (a \div 3), b \div 3), there)
                      IN here * 3 + there
    [] f.k = "not" -> LET n == 2 - (PS2(f.f, H, T) % 3) IN n * 3 + n
    [] f.k = "T" -> 8
    [] f.k = "F" -> 0
    [] f.k = "U" -> 4
HereVal(f, H, T) == PS2(f, H, T) \div 3
\* classical value (the total interpretation (T, T))
RECURSIVE PCI(_, _)
PCI(f, T) ==
  CASE f.k = "a" -> IF f.a \in T THEN 2 ELSE 0
    [] f.k = "and" -> FoldSet(LAMBDA x, acc : IF acc = 0 THEN 0 ELSE Mn(acc, PCI(x, T)), 2, f.s)
    [] f.k = "or" -> FoldSet(LAMBDA x, acc : IF acc = 2 THEN 2 ELSE Mx(acc, PCI(x, T)), 0, f.s)
    [] f.k = "imp" -> LET a == PCI(f.l, T) IN IF a = 0 THEN 2 ELSE Mx(2 - a, PCI(f.r, T))
    [] f.k = "not" -> 2 - PCI(f.f, T)
    [] f.k = "T" -> 2
    [] f.k = "F" -> 0
    [] f.k = "U" -> 1

\* ---------------------------------------------------------------- independent components
\* The conjuncts of two trees are grouped by shared atoms.  Groups mention disjoint atoms, hence
\*    g1 == g2   iff   both are never true, or every group agrees pointwise
\* which turns one enumeration over 3^n pairs into several small ones, exactly.
ConjOf(g) == IF g.k = "T" THEN {} ELSE IF g.k = "and" THEN g.s ELSE {g}
AndOf(S) == IF S = {} THEN TT ELSE MkSet("and", S)
Groups(items) ==
  LET Add(x, groups) ==
        LET ax == PAtoms(x)
            touching == {g \in groups : g.atoms \cap ax # {}}
        IN (groups \ touching) \cup
           {[items |-> {x} \cup UNION {g.items : g \in touching}, atoms |-> ax \cup UNION {g.atoms : g \in touching}]}
  IN FoldSet(Add, {}, items)
=============================================================================
