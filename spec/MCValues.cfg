INIT Init
NEXT Next
CHECK_DEADLOCK FALSE
