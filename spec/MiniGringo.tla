----------------------------- MODULE MiniGringo -----------------------------
(***************************************************************************)
(* Reference semantics of mini-gringo programs (the "tau" semantics of     *)
(* Fandinno, Lifschitz, Luehne, Schaub, "Verifying tight logic programs    *)
(* with anthem and vampire", as corrected on arXiv 2008.02025): a ground   *)
(* term denotes a finite SET of values, a rule instance denotes a          *)
(* propositional here-and-there formula, a program the conjunction of the  *)
(* instances of its rules for all substitutions of precomputed terms.      *)
(*                                                                         *)
(* This module shares no structure with anthem's translators: it is the    *)
(* independent oracle for C01-C04 and C08.                                 *)
(*                                                                         *)
(* Program trees (harness, Appendix A):                                    *)
(*  term  [k |-> "num", n] [k |-> "sym", c, r] [k |-> "inf"|"sup"]           *)
(*        [k |-> "var", v] [k |-> "neg", a]                                 *)
(*        [k |-> "add"|"sub"|"mul"|"div"|"mod"|"ivl", l, r]                 *)
(*  atom  [p, args]   body  [k |-> "lit", sign, a] | [k |-> "cmp", r, l, rt]*)
(*  rule  [head |-> [k |-> "basic"|"choice", a] | [k |-> "falsity"],        *)
(*         body, vars]                                                     *)
(*                                                                         *)
(* Named deliberate deviation D1: division and modulo are defined for a    *)
(* POSITIVE divisor only (floor quotient, non-negative remainder); this is *)
(* the behaviour anthem documents in tau_star.rs. DivMode selects other    *)
(* readings for display only.                                              *)
(***************************************************************************)
EXTENDS Sigma0

\* "paper": divisor > 0 (D1).  "floor": any non-zero divisor, floor.  "trunc": any non-zero divisor, truncation.
DivMode == "paper"

\* value sets: [u |-> TRUE] = cannot be determined (abstract operands), else [u |-> FALSE, s |-> set of values]
Unk == [u |-> TRUE, s |-> {}]
Known(S) == [u |-> FALSE, s |-> S]
Ints(S) == {y \in S : IsInt(y)}
AllConc(S) == \A v \in S : IsConc(v)

Abs(x) == IF x < 0 THEN -x ELSE x
Sgn(x) == IF x < 0 THEN -1 ELSE IF x > 0 THEN 1 ELSE 0
TruncDiv(x, y) == Sgn(x) * Sgn(y) * (Abs(x) \div Abs(y))
DivVal(x, y) == IF DivMode = "trunc" THEN TruncDiv(x, y)
                ELSE IF y > 0 THEN x \div y ELSE (-x) \div (-y)
ModVal(x, y) == x - y * DivVal(x, y)
Divisors(S) == IF DivMode = "paper" THEN {z \in S : z[2] > 0} ELSE {z \in S : z[2] # 0}

RECURSIVE PV(_, _)
PV(t, sg) ==
  CASE t.k = "num" -> Known({CInt(t.n)})
    [] t.k = "var" -> Known({sg[t.v]})
    \* placeholders (user guide) are symbolic constants whose value the substitution supplies under "#name"
    [] t.k = "sym" -> IF ("#" \o t.c) \in DOMAIN sg THEN Known({sg["#" \o t.c]}) ELSE Known({VSym(t.r)})
    [] t.k = "inf" -> Known({VInf})
    [] t.k = "sup" -> Known({VSup})
    [] t.k = "neg" -> LET a == PV(t.a, sg) IN IF a.u THEN Unk ELSE Known({NegI(x) : x \in Ints(a.s)})
    [] t.k \in {"add", "sub", "mul"} ->
         LET a == PV(t.l, sg) b == PV(t.r, sg) IN
         IF a.u \/ b.u THEN Unk
         ELSE Known({IF t.k = "add" THEN AddI(x, y) ELSE IF t.k = "sub" THEN SubI(x, y) ELSE MulI(x, y)
                      : x \in Ints(a.s), y \in Ints(b.s)})
    [] t.k \in {"div", "mod"} ->
         LET a == PV(t.l, sg) b == PV(t.r, sg) IN
         IF a.u \/ b.u THEN Unk
         ELSE LET ai == Ints(a.s) bi == Ints(b.s) IN
              IF ai = {} \/ bi = {} THEN Known({})
              ELSE IF DivMode = "paper" /\ \A z \in bi : z[3] <= 0 THEN Known({})
              ELSE IF ~AllConc(ai) \/ ~AllConc(bi) THEN Unk
              ELSE Known({IF t.k = "div" THEN CInt(DivVal(x[2], y[2])) ELSE CInt(ModVal(x[2], y[2]))
                           : x \in ai, y \in Divisors(bi)})
    [] t.k = "ivl" ->
         LET a == PV(t.l, sg) b == PV(t.r, sg) IN
         IF a.u \/ b.u THEN Unk
         ELSE LET ai == Ints(a.s) bi == Ints(b.s) IN
              IF ai = {} \/ bi = {} THEN Known({})
              ELSE IF \A x \in ai, y \in bi : x[2] > y[3] THEN Known({})
              ELSE IF ~AllConc(ai) \/ ~AllConc(bi) THEN Unk
              ELSE Known(UNION {{CInt(n) : n \in x[2]..y[2]} : x \in ai, y \in bi})

RECURSIVE Tuples(_, _)
Tuples(ts, sg) ==
  IF ts = <<>> THEN Known({<<>>})
  ELSE LET h == PV(Head(ts), sg) r == Tuples(Tail(ts), sg) IN
       IF h.u \/ r.u THEN Unk ELSE Known({<<x>> \o y : x \in h.s, y \in r.s})

RECURSIVE OrSet(_, _, _), AndSet(_, _, _)
OrSet(S, p, sign) ==
  IF S = {} THEN FF
  ELSE LET x == CHOOSE y \in S : TRUE
           a == PAtom(p, x)
           l == IF sign = 0 THEN a ELSE IF sign = 1 THEN PNot(a) ELSE PNot(PNot(a))
       IN IF l.k = "T" THEN TT ELSE POr(l, OrSet(S \ {x}, p, sign))
AndSet(S, p, choice) ==
  IF S = {} THEN TT
  ELSE LET x == CHOOSE y \in S : TRUE
           a == PAtom(p, x)
           l == IF choice THEN POr(a, PNot(a)) ELSE a
       IN IF l.k = "F" THEN FF ELSE PAnd(l, AndSet(S \ {x}, p, choice))

BodyLit(b, sg) ==
  IF b.k = "lit" THEN LET tp == Tuples(b.a.args, sg) IN IF tp.u THEN UU ELSE OrSet(tp.s, b.a.p, b.sign)
  ELSE LET l == PV(b.l, sg) r == PV(b.rt, sg) IN
       IF l.u \/ r.u THEN UU
       ELSE LET rs == {Rel3(b.r, x, y) : x \in l.s, y \in r.s} IN
            IF "T" \in rs THEN TT ELSE IF "U" \in rs THEN UU ELSE FF
RECURSIVE BodyG(_, _, _)
BodyG(bs, sg, acc) == IF bs = <<>> \/ acc.k = "F" THEN acc
                      ELSE BodyG(Tail(bs), sg, PAnd(acc, BodyLit(Head(bs), sg)))
HeadG(h, sg) ==
  IF h.k = "falsity" THEN FF
  ELSE LET tp == Tuples(h.a.args, sg) IN IF tp.u THEN UU ELSE AndSet(tp.s, h.a.p, h.k = "choice")
RuleInst(r, sg) == LET b == BodyG(r.body, sg, TT) IN IF b.k = "F" THEN TT ELSE PImp(b, HeadG(r.head, sg))

\* body literals that can be evaluated as soon as their variables are bound: prune instances early
RECURSIVE TermVars(_)
TermVars(t) == CASE t.k = "var" -> {t.v}
                 [] t.k \in {"num", "sym", "inf", "sup"} -> {}
                 [] t.k = "neg" -> TermVars(t.a)
                 [] OTHER -> TermVars(t.l) \cup TermVars(t.r)
BodyVars(b) == IF b.k = "lit" THEN UNION {TermVars(b.a.args[i]) : i \in DOMAIN b.a.args}
               ELSE TermVars(b.l) \cup TermVars(b.rt)

\* conjunction of all instances of rule r; rule variables range over the general domain
\* (concrete window, named symbols, #inf, #sup, and the abstract elements)
RECURSIVE RuleG(_, _, _)
RuleG(r, vars, sg) ==
  IF vars = <<>> THEN RuleInst(r, sg)
  ELSE LET v == Head(vars)
           D == Dom("g")
           bound == DOMAIN sg \cup {v}
           \* literals decidable once v is bound: if one of them is F the whole instance is T
           ready == {i \in DOMAIN r.body : BodyVars(r.body[i]) \subseteq bound /\ v \in BodyVars(r.body[i])}
           Step[j \in 0..Len(D)] ==
             IF j = 0 THEN TT
             ELSE LET prev == Step[j - 1] IN
                  IF prev.k = "F" THEN FF
                  ELSE LET sg2 == (v :> D[j]) @@ sg
                           dead == \E i \in ready : BodyLit(r.body[i], sg2).k = "F"
                       IN IF dead THEN prev ELSE PAnd(prev, RuleG(r, Tail(vars), sg2))
       IN Step[Len(D)]

RuleGround(r) == RuleG(r, r.vars, <<>>)
\* with placeholder values ph: [ "#name" |-> value ]
RECURSIVE ProgramGroundPh(_, _)
ProgramGroundPh(rules, ph) == IF rules = <<>> THEN TT
                              ELSE LET g == RuleG(Head(rules), Head(rules).vars, ph) IN
                                   IF g.k = "F" THEN FF ELSE PAnd(g, ProgramGroundPh(Tail(rules), ph))

\* ---------------------------------------------------------------- support of a ground atom by the rules of a program
\* Supp(rules, a, ph): the disjunction, over all rules whose head predicate is a's and all their instances whose head
\* value set contains a, of the instance's body (for a choice rule: body and a itself).  An atom of a predicate
\* defined by these rules belongs to a supported model iff this formula holds.
SuppInst(r, sg, a) ==
  IF r.head.k = "falsity" THEN FF
  ELSE IF r.head.a.p # a[1] \/ Len(r.head.a.args) # Len(a[2]) THEN FF
  ELSE LET tp == Tuples(r.head.a.args, sg) IN
       IF tp.u THEN (LET b == BodyG(r.body, sg, TT) IN IF b.k = "F" THEN FF ELSE UU)
       ELSE LET hits == {IF x = a[2] THEN "T" ELSE IF \A i \in DOMAIN x : Eq3(x[i], a[2][i]) # "F" THEN "U" ELSE "F" : x \in tp.s}
                self == IF r.head.k = "choice" THEN [k |-> "a", a |-> a] ELSE TT
            IN IF "T" \in hits THEN PAnd(BodyG(r.body, sg, TT), self)
               ELSE IF "U" \in hits THEN (LET b == BodyG(r.body, sg, TT) IN IF b.k = "F" THEN FF ELSE UU)
               ELSE FF
RECURSIVE SuppRule(_, _, _, _)
SuppRule(r, vars, sg, a) ==
  IF vars = <<>> THEN SuppInst(r, sg, a)
  ELSE LET v == Head(vars)
           D == Dom("g")
           bound == DOMAIN sg \cup {v}
           ready == {i \in DOMAIN r.body : BodyVars(r.body[i]) \subseteq bound /\ v \in BodyVars(r.body[i])}
           Step[j \in 0..Len(D)] ==
             IF j = 0 THEN FF
             ELSE LET prev == Step[j - 1] IN
                  IF prev.k = "T" THEN TT
                  ELSE LET sg2 == (v :> D[j]) @@ sg
                           dead == \E i \in ready : BodyLit(r.body[i], sg2).k = "F"
                       IN IF dead THEN prev ELSE POr(prev, SuppRule(r, Tail(vars), sg2, a))
       IN Step[Len(D)]
RECURSIVE Supp(_, _, _)
Supp(rules, a, ph) == IF rules = <<>> THEN FF
                      ELSE LET g == SuppRule(Head(rules), Head(rules).vars, ph, a) IN
                           IF g.k = "T" THEN TT ELSE POr(g, Supp(Tail(rules), a, ph))

RECURSIVE ProgramGround(_)
ProgramGround(rules) == IF rules = <<>> THEN TT
                        ELSE LET g == RuleGround(Head(rules)) IN IF g.k = "F" THEN FF ELSE PAnd(g, ProgramGround(Tail(rules)))

\* ---------------------------------------------------------------- stable models over a finite atom base
\* T (a set of ground atoms) is a stable model of the ground program g (with the input atoms of T as
\* facts): T |= g classically and no H strictly below T that agrees with T on input atoms has
\* (H, T) |= g.  Values: 2 yes, 0 no, 1 unknown.  `isInput(a)` says whether atom a is an input atom.
Stable3(g, T, isInput(_)) ==
  LET c == PCI(g, T) IN
  IF c = 0 THEN 0
  ELSE LET fixed == {a \in T : isInput(a)}
           free == T \ fixed
           below == {PS2(g, fixed \cup S, T) \div 3 : S \in (SUBSET free) \ {free}}
       IN IF 2 \in below THEN 0
          ELSE IF c = 1 \/ 1 \in below THEN 1 ELSE 2
=============================================================================
