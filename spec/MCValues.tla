------------------------------ MODULE MCValues ------------------------------
(***************************************************************************)
(* Design check of the abstract value domain (Values.tla): every operation *)
(* on abstract values is SOUND for all concretisations - the fact on which *)
(* "a definite verdict of the bounded evaluation is correct for the        *)
(* infinite domain" rests (DESIGN 4.3).  Checked exhaustively for all      *)
(* intervals with bounds in Bnd (incl. the sentinels and values around the *)
(* widening threshold BIG) and all concrete members in Conc.               *)
(***************************************************************************)
EXTENDS Values
Bnd == {-INF, -BIG - 1, -BIG, -3, -2, -1, 0, 1, 2, 3, BIG, BIG + 1, INF}
Conc == {-BIG - 1, -BIG, -40, -7, -3, -2, -1, 0, 1, 2, 3, 7, 40, BIG, BIG + 1}
Ivs == {<<1, a, b>> : a, b \in Bnd} \ {v \in {<<1, a, b>> : a, b \in Bnd} : v[2] > v[3] \/ (v[2] = v[3] /\ IsUnb(v[2]))}
Mem(x, v) == (v[2] = -INF \/ v[2] <= x) /\ (v[3] = INF \/ x <= v[3])
\* membership of an exact result in an interval whose finite bounds may have been clamped
MemR(x, v) == (v[2] = -INF \/ v[2] <= x) /\ (v[3] = INF \/ x <= v[3])
Others == {VInf, VSup, VSym(1), VSym(2), VOther}
\* concretisations of a value: integers of Conc inside an interval; the value itself for concrete non-integers;
\* for "some other symbol" two distinct unnamed symbols (ranks 7 and 9, above and between nothing named)
Gamma(v) == IF v[1] = 1 THEN {CInt(x) : x \in {y \in Conc : Mem(y, v)}}
            ELSE IF v = VOther THEN {VSym(7), VSym(9)} ELSE {v}
\* the concrete order: tag, then number / rank
LtC(a, b) == IF a[1] # b[1] THEN a[1] < b[1] ELSE IF a[1] \in {0, 3} THEN FALSE ELSE a[2] < b[2]
RelC(r, a, b) == CASE r = "eq" -> a = b [] r = "ne" -> a # b [] r = "lt" -> LtC(a, b) [] r = "gt" -> LtC(b, a)
                   [] r = "le" -> ~LtC(b, a) [] r = "ge" -> ~LtC(a, b)
Rels == {"eq", "ne", "lt", "gt", "le", "ge"}
AllVals == Ivs \cup Others

ArithSound ==
  \A A \in Ivs, B \in Ivs : \A a \in Gamma(A), b \in Gamma(B) :
     /\ MemR(a[2] + b[2], AddI(A, B))
     /\ MemR(a[2] - b[2], SubI(A, B))
     /\ (a[2] \in -BIG..BIG /\ b[2] \in -BIG..BIG) => MemR(a[2] * b[2], MulI(A, B))
     /\ MemR(-a[2], NegI(A))
\* a concrete result is exact
ArithExact ==
  \A x \in -7..7, y \in -7..7 : /\ AddI(CInt(x), CInt(y)) = CInt(x + y) /\ SubI(CInt(x), CInt(y)) = CInt(x - y)
                                 /\ MulI(CInt(x), CInt(y)) = CInt(x * y) /\ NegI(CInt(x)) = CInt(-x)
\* rank 0 ("other symbol") is never compared definitely with a named symbol in the ORDER (its position among the names is
\* unknown) but is definitely different from every named one
RelSound ==
  \A A \in AllVals, B \in AllVals, r \in Rels :
     LET x == Rel3(r, A, B) IN
     /\ x = "T" => \A a \in Gamma(A), b \in Gamma(B) : RelC(r, a, b)
     /\ x = "F" => \A a \in Gamma(A), b \in Gamma(B) : ~RelC(r, a, b)
\* concrete arguments give definite answers (no precision lost where none needs to be)
RelExact == \A A \in AllVals, B \in AllVals, r \in Rels : (IsConc(A) /\ IsConc(B)) => Rel3(r, A, B) = (IF RelC(r, A, B) THEN "T" ELSE "F")
KleeneSound ==
  \A a \in {"T", "F", "U"}, b \in {"T", "F", "U"} :
     LET G(x) == IF x = "T" THEN {TRUE} ELSE IF x = "F" THEN {FALSE} ELSE {TRUE, FALSE}
         D(x, S) == (x = "T" => S = {TRUE}) /\ (x = "F" => S = {FALSE})
     IN /\ D(And3(a, b), {p /\ q : p \in G(a), q \in G(b)}) /\ D(Or3(a, b), {p \/ q : p \in G(a), q \in G(b)})
        /\ D(Imp3(a, b), {p => q : p \in G(a), q \in G(b)}) /\ D(Iff3(a, b), {p <=> q : p \in G(a), q \in G(b)})
        /\ D(Not3(a), {~p : p \in G(a)})
ASSUME PrintT(<<"MCValues", "intervals", Cardinality(Ivs), "values", Cardinality(AllVals)>>)
ASSUME ArithSound
ASSUME ArithExact
ASSUME RelSound
ASSUME RelExact
ASSUME KleeneSound
VARIABLE x
Init == x = 0
Next == UNCHANGED x
=============================================================================
