SPECIFICATION DSpec
CONSTANTS
 NAx = 2
 NConc = 3
INVARIANT FamiliesEquivalent
CHECK_DEADLOCK FALSE
