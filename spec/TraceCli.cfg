SPECIFICATION TSpec
CONSTANT MaxStages = 4
CHECK_DEADLOCK FALSE
