SPECIFICATION MCSpec
INVARIANTS WalkAgrees FailAgrees Props
CHECK_DEADLOCK FALSE
