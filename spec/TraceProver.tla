---------------------------- MODULE TraceProver ----------------------------
(***************************************************************************)
(* Trace specification for C10: is what a real `anthem verify` run did -   *)
(* as recorded by the stand-in prover (START / EXIT records, written under *)
(* a lock with sequence numbers) and by anthem's own stdout (announce /    *)
(* report / verdict lines) - a behaviour of Prover.tla?                    *)
(*                                                                         *)
(* The two logs have no common clock, so the trace has TWO cursors and TLC *)
(* chooses the merge: no ordering between a stand-in record and a stdout   *)
(* line is assumed.  Steps of the code that neither log shows (a pool      *)
(* thread taking a job, spawning, sending its result) are silent steps of  *)
(* the trace Next; they are bounded because every one of them advances a   *)
(* worker of the finite model.                                             *)
(*                                                                         *)
(* One ndjson line per run:                                                *)
(*   np, n, spawn_ok        configuration                                  *)
(*   outcome[p]             what the plan told the stand-in to do for      *)
(*                          problem p (problems numbered by first announce)*)
(*   standin[..]            [ev |-> "START"|"EXIT", p, o]  (p = 0: stdin    *)
(*                          matched no file written by --save-problems)    *)
(*   stdout[..]             [ev |-> "announce", p]                          *)
(*                          [ev |-> "report", kind, p, word]                *)
(*                          [ev |-> "verdict", success]                     *)
(* A run is ACCEPTED iff a state is reachable in which both logs are       *)
(* consumed and the model has printed its verdict; the verdict line must   *)
(* equal the model's `success`, which Prover.tla proves equal to "every    *)
(* outcome is Theorem".                                                    *)
(***************************************************************************)
EXTENDS Prover, Json, IOUtils

Runs == ndJsonDeserialize(IOEnv.VERIF_TRACE)
Lo == atoi(IOEnv.VERIF_LO)
Hi == IF atoi(IOEnv.VERIF_HI) > Len(Runs) THEN Len(Runs) ELSE atoi(IOEnv.VERIF_HI)
Diag == IOEnv.VERIF_DIAG = "1"

VARIABLES run, i, j
tvars == <<vars, run, i, j>>
A == Runs[run].standin
B == Runs[run].stdout

TraceInit == /\ run \in Lo..Hi
             /\ i = 1 /\ j = 1
             /\ cfg = [np |-> Runs[run].np, n |-> Runs[run].n, spawnOk |-> Runs[run].spawn_ok]
             /\ outcome = [p \in 1..Runs[run].np |-> Runs[run].outcome[p]]
             \* every announced problem was written by --save-problems under its own name, and nothing else was
             /\ {Runs[run].saved[k] : k \in DOMAIN Runs[run].saved} = 1..Runs[run].np
             /\ Len(Runs[run].saved) = Runs[run].np
             /\ InitCtl

HasA == i <= Len(A)
HasB == j <= Len(B)
StepA == i' = i + 1 /\ UNCHANGED <<run, j>>
StepB == j' = j + 1 /\ UNCHANGED <<run, i>>

\* "> Proving <name>..."
TrAnnounce == /\ HasB /\ B[j].ev = "announce" /\ B[j].p = next
              /\ (Enqueue \/ SeqStart)
              /\ StepB
\* the stand-in has read the whole problem from its stdin: anthem wrote it and closed the pipe
TrStart == /\ HasA /\ A[i].ev = "START"
           /\ \E w \in Workers : worker[w].p = A[i].p /\ Feed(w)
           /\ StepA
\* the stand-in has written its planned output and is about to exit
TrExit == /\ HasA /\ A[i].ev = "EXIT"
          /\ A[i].p \in Problems /\ outcome[A[i].p] = A[i].o
          /\ \E w \in Workers : worker[w].p = A[i].p /\ Exit(w)
          /\ StepA
\* one result block of the main loop; error blocks do not name the problem: TLC picks it
TrReport == /\ HasB /\ B[j].ev = "report" /\ chan # <<>>
            /\ LET h == Head(chan) IN
               /\ ReportKind(h.o) = B[j].kind
               /\ (B[j].kind # "error" => h.p = B[j].p)
               /\ (B[j].kind = "status" => h.o = B[j].word)
            /\ Recv
            /\ StepB
\* "> Success! ..." / "> Failure! ..."
TrVerdict == /\ HasB /\ B[j].ev = "verdict"
             /\ success = B[j].success
             /\ Verdict
             /\ StepB
\* workers are interchangeable: the lowest idle one takes the job (symmetry reduction of the search)
MinIdle == CHOOSE w \in Workers : worker[w].st = "idle" /\ \A v \in Workers : worker[v].st = "idle" => w <= v
TrSilent == /\ \/ (\E w \in Workers : worker[w].st = "idle") /\ Take(MinIdle)
               \/ \E w \in Workers : Spawn(w) \/ SpawnFail(w) \/ Send(w)
            /\ UNCHANGED <<run, i, j>>

TraceNext == TrAnnounce \/ TrStart \/ TrExit \/ TrReport \/ TrVerdict \/ TrSilent
TraceSpec == TraceInit /\ [][TraceNext]_tvars

Accepted == i > Len(A) /\ j > Len(B) /\ done
\* always TRUE; collects the accepted runs (and, for diagnosis, every cursor position reached)
Collect == /\ Accepted => PrintT(ToJson([accept |-> Runs[run].id]))
           /\ Diag => PrintT(ToJson([at |-> Runs[run].id, i |-> i, j |-> j]))
=============================================================================
