------------------------------ MODULE MCOutline ------------------------------
(* Design check of Outline.tla: every outline of at most three entries.      *)
EXTENDS Outline
Kinds == {"lemma", "inductive", "definition"}
Dirs == {"universal", "forward", "backward"}
Entry == [kind : Kinds, dir : Dirs]
MCOutlines == UNION {[1..k -> Entry] : k \in 0..3}
=============================================================================
