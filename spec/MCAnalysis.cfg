SPECIFICATION Spec
INVARIANT TwoDefinitionsAgree
CHECK_DEADLOCK FALSE
