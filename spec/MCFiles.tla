------------------------------- MODULE MCFiles -------------------------------
(* Design check of Files.tla (C20): every layout of a bounded universe.     *)
EXTENDS FilesWalk
F(i) == [k |-> "f", n |-> i]
D(i, es) == [k |-> "d", n |-> i, es |-> es]
MCItems == {F(2), F(4), F(5), F(6), F(10), F(11), F(15), [k |-> "x", n |-> 16],
            D(8, <<F(15), F(4)>>), D(8, <<F(10), F(5), F(3)>>), D(8, <<D(13, <<F(2)>>), F(15), F(11)>>), D(13, <<>>)}
MCLayouts == UNION {[1..k -> MCItems] : k \in 0..3}
MCInit == \E l \in MCLayouts : InitWalk(l)
MCSpec == MCInit /\ [][WalkNext]_fvars
Props == todo = [j \in DOMAIN layout |-> [item |-> layout[j], prefix |-> <<>>]] => SwapProperty(layout) /\ MoveProperty(layout)
=============================================================================
