------------------------------- MODULE MCFiles -------------------------------
(* Design check of Files.tla (C20): every layout of a bounded universe.     *)
EXTENDS FilesWalk
F(nm) == [k |-> "f", n |-> Idx(nm)]
D(nm, es) == [k |-> "d", n |-> Idx(nm), es |-> es]
MCItems == {F("B.lp"), F("a.lp"), F("a.spec"), F("c.lp.bak"), F("m.ug"), F("n.po"), F("z.lp"), [k |-> "x", n |-> Idx("zz")],
            D("dir", <<F("z.lp"), F("a.lp")>>), D("dir", <<F("m.ug"), F("a.spec"), F("a-b.lp")>>),
            D("dir", <<D("sub", <<F("B.lp")>>), F("z.lp"), F("n.po"), F(".h.lp")>>), D("sub", <<>>)}
MCLayouts == UNION {[1..k -> MCItems] : k \in 0..3}
MCInit == \E l \in MCLayouts : InitWalk(l)
MCSpec == MCInit /\ [][WalkNext]_fvars
Props == todo = [j \in DOMAIN layout |-> [item |-> layout[j], prefix |-> <<>>]] => SwapProperty(layout) /\ MoveProperty(layout)
=============================================================================
