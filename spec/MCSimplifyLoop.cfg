SPECIFICATION LSpec
CONSTANTS
 Ids = {1, 2, 3, 4}
 Bound = 4
INVARIANT Idempotent
PROPERTY TerminatesIffNoRevisit
CHECK_DEADLOCK FALSE
