------------------------------- MODULE Prover -------------------------------
(***************************************************************************)
(* The concurrent tail of `anthem verify` (DESIGN.md 5.2, property C10):   *)
(* src/command_line/procedures.rs (Command::Verify arm) together with      *)
(* src/verifying/prover/mod.rs (Prover::prove_all) and vampire.rs          *)
(* (Vampire::prove).  One action per step of the code:                     *)
(*                                                                         *)
(*   sequential mode (instances = 1): the problem iterator is lazy, so for *)
(*     each problem in emission order: announce, spawn, feed, wait,        *)
(*     report; then the verdict                                            *)
(*   pool mode (instances > 1): the main thread announces and enqueues     *)
(*     EVERY problem (`for problem in problems { pool.execute(..) }`),     *)
(*     then receives results from the channel in completion order; N pool  *)
(*     threads take jobs from the queue in FIFO order, spawn a prover,     *)
(*     feed it the problem text, wait for its exit and send the result.    *)
(*                                                                         *)
(* The environment chooses, per problem, what the prover does (`outcome`): *)
(* which status line it prints, whether it prints one at all, whether its  *)
(* output is valid UTF-8; and whether the executable exists (`SpawnOk`).   *)
(* Exit(w) of different workers are independently enabled, so TLC explores *)
(* every completion order.                                                 *)
(***************************************************************************)
EXTENDS Integers, Sequences, FiniteSets, TLC

CONSTANTS Configs,   \* set of records [np, n, spawnOk]: number of emitted problems (1..np in emission
                     \* order), prover instances, whether the prover executable can be started
          Outcomes,  \* outcome classes the environment may choose from
          MaxN       \* an upper bound of cfg.n (only used to state fairness per worker)

VARIABLE cfg         \* the configuration of this run (chosen initially, never changed)
NP == cfg.np
N == cfg.n
SpawnOk == cfg.spawnOk
Problems == 1..NP
Workers == 1..N
Pool == N > 1

\* outcome classes (what a prover run does) and how the main loop classifies them
StatusWords == {"Theorem", "CounterSatisfiable", "ContradictoryAxioms", "Timeout", "MemoryOut", "GaveUp", "Error"}
\* "Unknown": a status line with a word anthem does not know; "Missing": no status line;
\* "BadUtf8": output that is not UTF-8 (report construction fails); "SpawnError": executable missing
ReportKind(o) == IF o \in StatusWords THEN "status"
                 ELSE IF o \in {"Unknown", "Missing"} THEN "nostatus"
                 ELSE "error"

VARIABLES next,      \* next problem the main thread pulls from the (lazy) problem iterator
          announced, \* sequence of announced problems ("> Proving p...")
          queue,     \* jobs handed to the pool and not yet taken
          worker,    \* worker -> [st, p, o];  st: idle, taken, running, fed, finished
          chan,      \* results sent and not yet received: sequence of [p, o]
          reported,  \* sequence of [p, o] in the order the main thread printed them
          success,   \* the flag of the Command::Verify arm
          done,      \* the verdict line has been printed
          spawns,    \* problem -> number of prover processes started for it      (history)
          fed,       \* problem -> number of times its text was written to a prover (history)
          outcome    \* problem -> outcome class chosen by the environment        (history)
vars == <<cfg, next, announced, queue, worker, chan, reported, success, done, spawns, fed, outcome>>

Idle == [st |-> "idle", p |-> 0, o |-> "-"]

\* everything except the choices of the environment
InitCtl == /\ next = 1 /\ announced = <<>> /\ queue = <<>>
           /\ worker = [w \in Workers |-> Idle]
           /\ chan = <<>> /\ reported = <<>> /\ success = TRUE /\ done = FALSE
           /\ spawns = [p \in Problems |-> 0]
           /\ fed = [p \in Problems |-> 0]
Init == /\ cfg \in Configs
        /\ outcome \in [Problems -> Outcomes]
        /\ InitCtl

\* ---- pool mode: `for problem in problems { pool.execute(..) }` - the inspect() closure announces
Enqueue == /\ Pool /\ next <= NP
           /\ announced' = Append(announced, next) /\ queue' = Append(queue, next) /\ next' = next + 1
           /\ UNCHANGED <<cfg, worker, chan, reported, success, done, spawns, fed, outcome>>
\* ---- sequential mode: `problems.into_iter().map(|p| prover.prove(p))` pulled by the for loop
SeqStart == /\ ~Pool /\ next <= NP /\ worker[1].st = "idle" /\ chan = <<>> /\ queue = <<>>
            /\ announced' = Append(announced, next) /\ queue' = <<next>> /\ next' = next + 1
            /\ UNCHANGED <<cfg, worker, chan, reported, success, done, spawns, fed, outcome>>
\* a pool thread (or the main thread in sequential mode) takes the oldest job
Take(w) == /\ worker[w].st = "idle" /\ queue # <<>>
           /\ worker' = [worker EXCEPT ![w] = [st |-> "taken", p |-> Head(queue), o |-> "-"]]
           /\ queue' = Tail(queue)
           /\ UNCHANGED <<cfg, next, announced, chan, reported, success, done, spawns, fed, outcome>>
\* Command::new("vampire")...spawn()
Spawn(w) == /\ worker[w].st = "taken" /\ SpawnOk
            /\ worker' = [worker EXCEPT ![w].st = "running"]
            /\ spawns' = [spawns EXCEPT ![worker[w].p] = @ + 1]
            /\ UNCHANGED <<cfg, next, announced, queue, chan, reported, success, done, fed, outcome>>
SpawnFail(w) == /\ worker[w].st = "taken" /\ ~SpawnOk
                /\ worker' = [worker EXCEPT ![w] = [st |-> "finished", p |-> worker[w].p, o |-> "SpawnError"]]
                /\ UNCHANGED <<cfg, next, announced, queue, chan, reported, success, done, spawns, fed, outcome>>
\* write!(stdin, "{problem}"); drop(stdin)
Feed(w) == /\ worker[w].st = "running"
           /\ worker' = [worker EXCEPT ![w].st = "fed"]
           /\ fed' = [fed EXCEPT ![worker[w].p] = @ + 1]
           /\ UNCHANGED <<cfg, next, announced, queue, chan, reported, success, done, spawns, outcome>>
\* child.wait_with_output(): the prover exits, having done what the environment chose
Exit(w) == /\ worker[w].st = "fed"
           /\ worker' = [worker EXCEPT ![w] = [st |-> "finished", p |-> worker[w].p, o |-> outcome[worker[w].p]]]
           /\ UNCHANGED <<cfg, next, announced, queue, chan, reported, success, done, spawns, fed, outcome>>
\* tx.send(result) in pool mode; returning from prove() in sequential mode
Send(w) == /\ worker[w].st = "finished"
           /\ chan' = Append(chan, [p |-> worker[w].p, o |-> worker[w].o])
           /\ worker' = [worker EXCEPT ![w] = Idle]
           /\ UNCHANGED <<cfg, next, announced, queue, reported, success, done, spawns, fed, outcome>>
\* one iteration of `for result in prover.prove_all(problems)`
Recv == /\ chan # <<>> /\ (Pool => next > NP)
        /\ reported' = Append(reported, Head(chan)) /\ chan' = Tail(chan)
        /\ success' = (success /\ Head(chan).o = "Theorem")
        /\ UNCHANGED <<cfg, next, announced, queue, worker, done, spawns, fed, outcome>>
AllIdle == \A w \in Workers : worker[w].st = "idle"
\* the iterator is exhausted (all senders dropped / map exhausted): print the verdict
Verdict == /\ ~done /\ next > NP /\ queue = <<>> /\ chan = <<>> /\ AllIdle
           /\ done' = TRUE
           /\ UNCHANGED <<cfg, next, announced, queue, worker, chan, reported, success, spawns, fed, outcome>>

WorkerStep(w) == Take(w) \/ Spawn(w) \/ SpawnFail(w) \/ Feed(w) \/ Exit(w) \/ Send(w)
MainStep == Enqueue \/ SeqStart \/ Recv \/ Verdict
Next == MainStep \/ \E w \in Workers : WorkerStep(w)
Spec == Init /\ [][Next]_vars /\ WF_vars(MainStep) /\ \A w \in 1..MaxN : WF_vars(w \in Workers /\ WorkerStep(w))

\* ---------------------------------------------------------------- properties (C10)
Running == {w \in Workers : worker[w].st \in {"running", "fed"}}
AtMostN == Cardinality(Running) <= N
ExactlyOnce == done => \A p \in Problems : /\ spawns[p] = (IF SpawnOk THEN 1 ELSE 0)
                                           /\ fed[p] = spawns[p]
NeverTwice == \A p \in Problems : spawns[p] <= 1 /\ fed[p] <= spawns[p]
ReportedAll == done => /\ Len(reported) = NP
                       /\ {reported[i].p : i \in DOMAIN reported} = Problems
VerdictIffAllTheorem == done => (success <=> (SpawnOk /\ \A p \in Problems : outcome[p] = "Theorem"))
\* the flag is only ever cleared, and it is cleared as soon as a non-Theorem result was reported
FlagMonotone == [][success' => success]_vars
FlagExact == success <=> \A i \in DOMAIN reported : reported[i].o = "Theorem"
AnnouncedInOrder == announced = [i \in 1..Len(announced) |-> i]
\* in pool mode nothing is reported before everything is announced
PoolAnnouncesFirst == Pool /\ reported # <<>> => Len(announced) = NP
TypeOK == /\ next \in 1..(NP + 1) /\ success \in BOOLEAN /\ done \in BOOLEAN
          /\ \A w \in Workers : worker[w].st \in {"idle", "taken", "running", "fed", "finished"}
Termination == <>done
=============================================================================
