-------------------------------- MODULE Tptp --------------------------------
(***************************************************************************)
(* The typed first-order form (TFF) problems anthem emits, as trees read   *)
(* from the TEXT by the strict reader tools/tff.py:                        *)
(*   (a) the typing judgement of TFF0: every symbol declared exactly once  *)
(*       at the type it is used at, variables bound and typed, arguments   *)
(*       and the built-in $int signature type-check, formula names unique, *)
(*       exactly one conjecture (property C09);                            *)
(*   (b) the STANDARD INTERPRETATION of the preamble vocabulary as a total *)
(*       map into sigma_0 (properties C06, C12): f__integer__ and          *)
(*       f__symbolic__ are the sort injections, c__infimum__ and           *)
(*       c__supremum__ the extreme elements, p__less__ &c. the total order,*)
(*       $sum &c. integer arithmetic; after the map the sound bounded      *)
(*       evaluation of Sigma0.tla applies unchanged.                       *)
(***************************************************************************)
EXTENDS Sigma0, SequencesExt

\* ---------------------------------------------------------------- (a) typing
IsDecl(n) == n.k = "decl"
Decls(nodes) == SelectSeq(nodes, IsDecl)
Forms(nodes) == SelectSeq(nodes, LAMBDA n : n.k = "tff")
TypeDecls(nodes) == SelectSeq(nodes, LAMBDA n : IsDecl(n) /\ n.type.res = "$tType")
SymDecls(nodes) == SelectSeq(nodes, LAMBDA n : IsDecl(n) /\ n.type.res # "$tType")
KnownTypes(nodes) == {"$int"} \cup {TypeDecls(nodes)[i].sym : i \in DOMAIN TypeDecls(nodes)}
IntFunctions == [f \in {"$sum", "$difference", "$product"} |-> 2] @@ [f \in {"$uminus"} |-> 1]
IntPredicates == {"$less", "$lesseq", "$greater", "$greatereq"}
First(reasons) == IF \E i \in DOMAIN reasons : reasons[i] # "" THEN reasons[CHOOSE i \in DOMAIN reasons : reasons[i] # "" /\ \A j \in 1..(i - 1) : reasons[j] = ""] ELSE ""

\* type of a term ("" if ill-typed; the reason is produced by TermWhy)
RECURSIVE TermType(_, _, _), TermWhy(_, _, _)
TermType(t, env, tab) ==
  CASE t.k = "var" -> IF t.v \in DOMAIN env THEN env[t.v] ELSE ""
    [] t.k = "num" -> "$int"
    [] t.k = "app" ->
         IF t.f \in DOMAIN IntFunctions THEN "$int"
         ELSE IF t.f \in DOMAIN tab THEN tab[t.f].res ELSE ""
TermWhy(t, env, tab) ==
  CASE t.k = "var" -> IF t.v \in DOMAIN env THEN "" ELSE "variable " \o t.v \o " is not bound by a typed quantifier"
    [] t.k = "num" -> ""
    [] t.k = "app" ->
         LET sub == First([i \in DOMAIN t.args |-> TermWhy(t.args[i], env, tab)]) IN
         IF sub # "" THEN sub
         ELSE IF t.f \in DOMAIN IntFunctions
              THEN IF Len(t.args) # IntFunctions[t.f] THEN "wrong number of arguments for " \o t.f
                   ELSE IF \E i \in DOMAIN t.args : TermType(t.args[i], env, tab) # "$int" THEN "argument of " \o t.f \o " is not of type $int"
                   ELSE ""
         ELSE IF t.f \notin DOMAIN tab THEN "symbol " \o t.f \o " is used but not declared"
         ELSE IF tab[t.f].res = "$o" THEN "predicate " \o t.f \o " is used as a term"
         ELSE IF Len(tab[t.f].args) # Len(t.args) THEN "symbol " \o t.f \o " is used with another arity than declared"
         ELSE IF \E i \in DOMAIN t.args : TermType(t.args[i], env, tab) # tab[t.f].args[i] THEN "an argument of " \o t.f \o " has not the declared type"
         ELSE ""
RECURSIVE FormWhy(_, _, _, _)
FormWhy(f, env, tab, types) ==
  CASE f.k \in {"true", "false"} -> ""
    [] f.k = "patom" ->
         LET sub == First([i \in DOMAIN f.args |-> TermWhy(f.args[i], env, tab)]) IN
         IF sub # "" THEN sub
         ELSE IF f.p \in IntPredicates
              THEN IF Len(f.args) # 2 \/ \E i \in DOMAIN f.args : TermType(f.args[i], env, tab) # "$int" THEN "arguments of " \o f.p \o " are not two $int terms" ELSE ""
         ELSE IF f.p \notin DOMAIN tab THEN "predicate " \o f.p \o " is used but not declared"
         ELSE IF tab[f.p].res # "$o" THEN "symbol " \o f.p \o " is not declared as a predicate but used as a formula"
         ELSE IF Len(tab[f.p].args) # Len(f.args) THEN "predicate " \o f.p \o " is used with another arity than declared"
         ELSE IF \E i \in DOMAIN f.args : TermType(f.args[i], env, tab) # tab[f.p].args[i] THEN "an argument of " \o f.p \o " has not the declared type"
         ELSE ""
    [] f.k \in {"eq", "neq"} ->
         LET sub == First(<<TermWhy(f.l, env, tab), TermWhy(f.r, env, tab)>>) IN
         IF sub # "" THEN sub
         ELSE IF TermType(f.l, env, tab) # TermType(f.r, env, tab) THEN "the two sides of an equation have different types"
         ELSE IF TermType(f.l, env, tab) = "$o" THEN "equation between formulas" ELSE ""
    [] f.k = "not" -> FormWhy(f.f, env, tab, types)
    [] f.k \in {"and", "or"} -> First([i \in DOMAIN f.fs |-> FormWhy(f.fs[i], env, tab, types)])
    [] f.k \in {"imp", "rimp", "iff"} -> First(<<FormWhy(f.l, env, tab, types), FormWhy(f.r, env, tab, types)>>)
    [] f.k \in {"forall", "exists"} ->
         IF \E i \in DOMAIN f.vars : f.vars[i].t \notin types THEN "a variable is quantified over an undeclared type"
         ELSE FormWhy(f.f, [v \in {f.vars[i].v : i \in DOMAIN f.vars} |-> f.vars[CHOOSE i \in DOMAIN f.vars : f.vars[i].v = v].t] @@ env, tab, types)
    [] OTHER -> "connective " \o f.k \o " is not one anthem may emit"

RECURSIVE JoinArgs(_)
JoinArgs(a) == IF a = <<>> THEN "" ELSE IF Len(a) = 1 THEN a[1] ELSE a[1] \o " * " \o JoinArgs(Tail(a))
TypeStr(ty) == IF ty.args = <<>> THEN ty.res ELSE "(" \o JoinArgs(ty.args) \o ") > " \o ty.res
\* the sequence of all reasons why the problem is not well-formed (empty iff it is).  When a symbol is declared twice the
\* uses of symbols cannot be typed reliably, so only the declaration-level reasons are reported in that case.
ProblemWhys(nodes) ==
  LET sd == SymDecls(nodes)
      td == TypeDecls(nodes)
      types == KnownTypes(nodes)
      names == [i \in DOMAIN nodes |-> nodes[i].name]
      syms == [i \in DOMAIN sd |-> sd[i].sym]
      tab == [s \in {sd[i].sym : i \in DOMAIN sd} |-> sd[CHOOSE i \in DOMAIN sd : sd[i].sym = s].type]
      fs == Forms(nodes)
      nconj == Cardinality({i \in DOMAIN fs : fs[i].role = "conjecture"})
      dupFirst == {i \in DOMAIN syms : (\E j \in DOMAIN syms : i < j /\ syms[i] = syms[j]) /\ ~\E h \in 1..(i - 1) : syms[h] = syms[i]}
      dups == [i \in dupFirst |-> LET j == CHOOSE y \in DOMAIN syms : i < y /\ syms[i] = syms[y]
                                  IN "symbol " \o syms[i] \o " is declared more than once: as " \o TypeStr(sd[i].type) \o " and as " \o TypeStr(sd[j].type)]
      builtin == {i \in DOMAIN sd : sd[i].sym \in types \/ sd[i].sym \in DOMAIN IntFunctions \/ sd[i].sym \in IntPredicates}
      declLevel == [i \in dupFirst |-> dups[i]] 
      declReasons == SetToSeq({dups[i] : i \in dupFirst}
                              \cup {"symbol " \o sd[i].sym \o " is declared although it is the name of a type or a built-in" : i \in builtin})
      general == <<
         IF \E i, j \in DOMAIN names : i # j /\ names[i] = names[j]
         THEN "two annotated formulas have the same name " \o names[CHOOSE i \in DOMAIN names : \E j \in DOMAIN names : i # j /\ names[i] = names[j]] ELSE "",
         IF \E i, j \in DOMAIN td : i # j /\ td[i].sym = td[j].sym THEN "a type is declared twice" ELSE "",
         IF \E i \in DOMAIN sd : \E j \in DOMAIN sd[i].type.args : sd[i].type.args[j] \notin types THEN "a declaration mentions an undeclared type" ELSE "",
         IF \E i \in DOMAIN sd : sd[i].type.res \notin types \cup {"$o"} THEN "a declaration has an undeclared result type" ELSE "",
         IF \E i \in DOMAIN fs : fs[i].role \notin {"axiom", "conjecture"} THEN "a formula has a role other than axiom / conjecture" ELSE "",
         IF nconj # 1 THEN "the problem has " \o ToString(nconj) \o " conjectures" ELSE "">>
      typing == IF declReasons # <<>> THEN <<>>
                ELSE [i \in DOMAIN fs |-> LET w == FormWhy(fs[i].f, <<>>, tab, types) IN IF w = "" THEN "" ELSE fs[i].name \o ": " \o w]
  IN SelectSeq(declReasons \o general \o typing, LAMBDA x : x # "")

\* ---------------------------------------------------------------- (b) the standard interpretation, as a map into sigma_0
SortOfType(ty) == IF ty = "$int" THEN "i" ELSE IF ty = "symbol" THEN "s" ELSE "g"
\* anthem renders a variable or function constant named X of sort g / i / s as X_g / X_i / X_s
StripSort(name, s) == IF Len(name) > 2 /\ SubSeq(name, Len(name) - 1, Len(name)) = "_" \o s THEN SubSeq(name, 1, Len(name) - 2) ELSE name
OrderPreds == [p \in {"p__less__", "$less"} |-> "lt"] @@ [p \in {"p__less_equal__", "$lesseq"} |-> "le"]
              @@ [p \in {"p__greater__", "$greater"} |-> "gt"] @@ [p \in {"p__greater_equal__", "$greatereq"} |-> "ge"]
\* env: TPTP variable -> type;  tab: declared symbol -> type;  rank: symbolic constant (source name) -> rank in byte order
RECURSIVE TermS(_, _, _, _)
TermS(t, env, tab, rank) ==
  CASE t.k = "var" -> LET s == SortOfType(env[t.v]) IN [k |-> "var", v |-> StripSort(t.v, s), s |-> s]
    [] t.k = "num" -> [k |-> "num", n |-> t.n]
    [] t.k = "app" ->
         CASE t.f = "$uminus" -> LET a == TermS(t.args[1], env, tab, rank) IN IF a.k = "num" THEN [k |-> "num", n |-> 0 - a.n] ELSE [k |-> "neg", a |-> a]
           [] t.f = "$sum" -> [k |-> "add", l |-> TermS(t.args[1], env, tab, rank), r |-> TermS(t.args[2], env, tab, rank)]
           [] t.f = "$difference" -> [k |-> "sub", l |-> TermS(t.args[1], env, tab, rank), r |-> TermS(t.args[2], env, tab, rank)]
           [] t.f = "$product" -> [k |-> "mul", l |-> TermS(t.args[1], env, tab, rank), r |-> TermS(t.args[2], env, tab, rank)]
           [] t.f \in {"f__integer__", "f__symbolic__"} -> TermS(t.args[1], env, tab, rank)
           [] t.f = "c__infimum__" -> [k |-> "inf"]
           [] t.f = "c__supremum__" -> [k |-> "sup"]
           [] OTHER -> \* a constant: a symbolic constant of the source, or a placeholder (function constant)
                IF t.f \in DOMAIN rank THEN [k |-> "sym", c |-> t.f, r |-> rank[t.f]]
                ELSE LET s == SortOfType(tab[t.f].res) IN [k |-> "fc", c |-> StripSort(t.f, s), s |-> s]
RECURSIVE AndAll(_), OrAllS(_)
AndAll(fs) == IF Len(fs) = 1 THEN fs[1] ELSE [k |-> "and", l |-> fs[1], r |-> AndAll(Tail(fs))]
OrAllS(fs) == IF Len(fs) = 1 THEN fs[1] ELSE [k |-> "or", l |-> fs[1], r |-> OrAllS(Tail(fs))]
MkCmp(rel, a, b) == [k |-> "cmp", t |-> a, g |-> <<[r |-> rel, t |-> b]>>]
RECURSIVE FormS(_, _, _, _)
FormS(f, env, tab, rank) ==
  CASE f.k \in {"true", "false"} -> [k |-> f.k]
    [] f.k = "patom" ->
         IF f.p \in DOMAIN OrderPreds THEN MkCmp(OrderPreds[f.p], TermS(f.args[1], env, tab, rank), TermS(f.args[2], env, tab, rank))
         ELSE IF f.p = "p__is_integer__"
              THEN [k |-> "exists", vars |-> <<[n |-> "N__", s |-> "i"]>>, f |-> MkCmp("eq", TermS(f.args[1], env, tab, rank), [k |-> "var", v |-> "N__", s |-> "i"])]
         ELSE IF f.p = "p__is_symbolic__"
              THEN [k |-> "exists", vars |-> <<[n |-> "S__", s |-> "s"]>>, f |-> MkCmp("eq", TermS(f.args[1], env, tab, rank), [k |-> "var", v |-> "S__", s |-> "s"])]
         ELSE [k |-> "atom", p |-> f.p, args |-> [i \in DOMAIN f.args |-> TermS(f.args[i], env, tab, rank)]]
    [] f.k = "eq" -> MkCmp("eq", TermS(f.l, env, tab, rank), TermS(f.r, env, tab, rank))
    [] f.k = "neq" -> MkCmp("ne", TermS(f.l, env, tab, rank), TermS(f.r, env, tab, rank))
    [] f.k = "not" -> [k |-> "not", f |-> FormS(f.f, env, tab, rank)]
    [] f.k = "and" -> AndAll([i \in DOMAIN f.fs |-> FormS(f.fs[i], env, tab, rank)])
    [] f.k = "or" -> OrAllS([i \in DOMAIN f.fs |-> FormS(f.fs[i], env, tab, rank)])
    [] f.k \in {"imp", "rimp", "iff"} -> [k |-> f.k, l |-> FormS(f.l, env, tab, rank), r |-> FormS(f.r, env, tab, rank)]
    [] f.k \in {"forall", "exists"} ->
         LET env2 == [v \in {f.vars[i].v : i \in DOMAIN f.vars} |-> f.vars[CHOOSE i \in DOMAIN f.vars : f.vars[i].v = v].t] @@ env
         IN [k |-> f.k,
             vars |-> [i \in DOMAIN f.vars |-> LET s == SortOfType(f.vars[i].t) IN [n |-> StripSort(f.vars[i].v, s), s |-> s]],
             f |-> FormS(f.f, env2, tab, rank)]
SymTable(nodes) == LET sd == SymDecls(nodes) IN [s \in {sd[i].sym : i \in DOMAIN sd} |-> sd[CHOOSE i \in DOMAIN sd : sd[i].sym = s].type]
RankOf(syms) == [s \in {syms[i] : i \in DOMAIN syms} |-> CHOOSE i \in DOMAIN syms : syms[i] = s]
=============================================================================
