--------------------------------- MODULE Gen ---------------------------------
(***************************************************************************)
(* Specification -> implementation direction: TLC derives inputs from the  *)
(* grammars of anthem's two languages and prints them as JSON cases which  *)
(* the harness replays into the real code.                                 *)
(*                                                                         *)
(* The generator is a BEHAVIOUR: state (n, sd); one step derives case n    *)
(* from the seed and advances a small linear congruential generator (two   *)
(* 16-bit streams - TLC integers are 32 bit), so runs are reproducible for *)
(* equal VERIF_SEED and there is no recursion over the number of cases.    *)
(* MODE selects the grammar, COUNT the number of cases.                    *)
(*                                                                         *)
(* Identifier pools are adversarial on purpose: I J K Q R Z Z1 V V1 N0 ... *)
(* are the names anthem's translators choose as "fresh".                   *)
(***************************************************************************)
EXTENDS Integers, Sequences, TLC, Json, IOUtils

Mode == IOEnv.GEN_MODE
Count == atoi(IOEnv.GEN_COUNT)
Seed0 == atoi(IOEnv.VERIF_SEED)
Depth == atoi(IOEnv.GEN_DEPTH)

\* ---------------------------------------------------------------- pseudo-random stream
Nx(sd) == <<(sd[1] * 1103 + 12347) % 46337, (sd[2] * 2311 + 9973) % 46309>>
Val(sd) == sd[1] + sd[2]
Pick(sd, seq) == seq[(Val(sd) % Len(seq)) + 1]
Mix(sd, k) == Nx(<<(sd[1] + 7 * k) % 46337, (sd[2] + 13 * k) % 46309>>)
Start == Nx(Nx(<<(Seed0 * 31 + 17) % 46337, (Seed0 * 57 + 5) % 46309>>))

VarPool == <<"X", "Y", "Z", "I", "J", "K", "V", "V1", "Z1", "Q", "R", "N0", "I1", "J1", "N", "X1", "V2", "Z2", "K1", "N10">>
Nums == <<"0", "1", "2", "3", "-1", "-2", "5">>
Syms == <<"a", "b", "c">>
BinOps == <<"+", "-", "*", "/", "\\", "..", "+", "*">>
Rels == <<"=", "!=", "<", "<=", ">", ">=">>
Preds1 == <<"p", "q", "r">>

\* ---------------------------------------------------------------- mini-gringo terms, rules, programs
\* every function returns [s |-> text, sd |-> next seed]
\* top-level leaves may be anything; leaves under arithmetic are mostly variables and numerals
Leaf(sd, vs, arith) ==
  LET c == Val(sd) % 100
      s1 == Nx(sd)
      symAt == IF arith THEN 95 ELSE 80
  IN IF c < 45 THEN [s |-> Pick(s1, vs), sd |-> Nx(s1)]
     ELSE IF c < symAt THEN [s |-> Pick(s1, Nums), sd |-> Nx(s1)]
     ELSE IF c < 97 THEN [s |-> Pick(s1, Syms), sd |-> Nx(s1)]
     ELSE IF c < 99 THEN [s |-> "#inf", sd |-> s1]
     ELSE [s |-> "#sup", sd |-> s1]

RECURSIVE Term(_, _, _, _)
Term(sd, d, vs, arith) ==
  LET c == Val(sd) % 100
      s1 == Nx(sd)
  IN IF d = 0 \/ c < 40 THEN Leaf(s1, vs, arith)
     ELSE IF c < 46 THEN LET a == Term(s1, d - 1, vs, TRUE) IN [s |-> "-(" \o a.s \o ")", sd |-> a.sd]
     ELSE LET op == Pick(s1, BinOps)
              a == Term(Nx(s1), d - 1, vs, TRUE)
              b == Term(a.sd, d - 1, vs, TRUE)
          IN [s |-> "(" \o a.s \o " " \o op \o " " \o b.s \o ")", sd |-> b.sd]

\* an atom  p(t) ; occasionally binary  t(t1,t2)  or propositional  s
Atom(sd, d, vs, preds) ==
  LET c == Val(sd) % 100
      s1 == Nx(sd)
  IN IF c < 8 THEN [s |-> "s", sd |-> s1]
     ELSE IF c < 16 THEN LET a == Term(s1, d, vs, FALSE) b == Term(a.sd, d, vs, FALSE)
                         IN [s |-> "t(" \o a.s \o "," \o b.s \o ")", sd |-> b.sd]
     ELSE LET p == Pick(s1, preds) a == Term(Nx(s1), d, vs, FALSE)
          IN [s |-> p \o "(" \o a.s \o ")", sd |-> a.sd]

BodyElem(sd, d, vs) ==
  LET c == Val(sd) % 100
      s1 == Nx(sd)
  IN IF c < 30
     THEN LET a == Term(s1, d, vs, FALSE) rel == Pick(a.sd, Rels) b == Term(Nx(a.sd), d, vs, FALSE)
          IN [s |-> a.s \o " " \o rel \o " " \o b.s, sd |-> b.sd]
     ELSE LET sign == IF c < 70 THEN "" ELSE IF c < 88 THEN "not " ELSE "not not "
              a == Atom(s1, d, vs, Preds1)
          IN [s |-> sign \o a.s, sd |-> a.sd]

\* a safety literal  q(X)  for a variable, so that many rules are safe (and instances are pruned)
Safety(sd, vs) == [s |-> Pick(sd, <<"q", "r">>) \o "(" \o Pick(Nx(sd), vs) \o ")", sd |-> Nx(Nx(sd))]

RECURSIVE Body(_, _, _, _)
Body(sd, n, d, vs) ==
  IF n = 0 THEN [s |-> "", sd |-> sd]
  ELSE LET e == BodyElem(sd, d, vs)
           r == Body(e.sd, n - 1, d, vs)
       IN [s |-> IF r.s = "" THEN e.s ELSE e.s \o ", " \o r.s, sd |-> r.sd]

Rule(sd, d) ==
  LET v1 == Pick(sd, VarPool)
      v2 == Pick(Nx(sd), VarPool)
      s2 == Nx(Nx(sd))
      vs == IF Val(s2) % 3 = 0 THEN <<v1>> ELSE <<v1, v2>>
      s3 == Nx(s2)
      hk == Val(s3) % 100
      h == IF hk < 55 THEN Atom(Nx(s3), d, vs, <<"p", "p", "r">>)
           ELSE IF hk < 80 THEN LET a == Atom(Nx(s3), d, vs, <<"p", "p", "r">>) IN [s |-> "{" \o a.s \o "}", sd |-> a.sd]
           ELSE [s |-> "", sd |-> Nx(s3)]
      nb == Val(h.sd) % 3
      b == Body(Nx(h.sd), nb, d, vs)
      sf == IF Val(b.sd) % 100 < 65 THEN Safety(Nx(b.sd), vs) ELSE [s |-> "", sd |-> Nx(b.sd)]
      body == IF b.s = "" THEN sf.s ELSE IF sf.s = "" THEN b.s ELSE sf.s \o ", " \o b.s
  IN [s |-> IF body = "" THEN (IF h.s = "" THEN ":- q(0)." ELSE h.s \o ".") ELSE h.s \o " :- " \o body \o ".",
      sd |-> sf.sd]

RECURSIVE Rules(_, _, _)
Rules(sd, n, d) ==
  IF n = 0 THEN [s |-> "", sd |-> sd]
  ELSE LET r == Rule(sd, d) rest == Rules(r.sd, n - 1, d)
       IN [s |-> IF rest.s = "" THEN r.s ELSE r.s \o " " \o rest.s, sd |-> rest.sd]

ProgramCase(n, sd) ==
  LET k == 1 + (Val(sd) % 3)
      p == Rules(Nx(sd), k, Depth)
  IN [id |-> "g" \o ToString(n), prog |-> p.s]

\* ---------------------------------------------------------------- systematic rules (exhaustive small grammar)
\* every term of depth <= 1 over a small leaf pool, in every syntactic position of a rule
SLeaves == <<"X", "Y", "0", "1", "2", "-1", "a", "#inf", "#sup">>
SSmall == <<"X", "Y", "1", "2", "-1">>
SOps == <<"+", "-", "*", "/", "\\", "..">>
NL == Len(SLeaves)
NS == Len(SSmall)
NB == Len(SOps) * NS * NS
NTerms == NL + NS + NB
STerm(i) ==     \* 0-based index
  IF i < NL THEN SLeaves[i + 1]
  ELSE IF i < NL + NS THEN "-(" \o SSmall[i - NL + 1] \o ")"
  ELSE LET j == i - NL - NS
           op == SOps[(j \div (NS * NS)) + 1]
           a == SSmall[((j \div NS) % NS) + 1]
           b == SSmall[(j % NS) + 1]
       IN "(" \o a \o " " \o op \o " " \o b \o ")"
HasY(i) == IF i < NL THEN SLeaves[i + 1] = "Y"
           ELSE IF i < NL + NS THEN SSmall[i - NL + 1] = "Y"
           ELSE LET j == i - NL - NS IN SSmall[((j \div NS) % NS) + 1] = "Y" \/ SSmall[(j % NS) + 1] = "Y"
NTemplates == 9
SysRule(tmpl, i) ==
  LET t == STerm(i)
      dom == IF HasY(i) THEN "q(X), q(Y)" ELSE "q(X)"
      rel == Rels[(i % 6) + 1]
  IN CASE tmpl = 0 -> "p(" \o t \o ") :- " \o dom \o "."
       [] tmpl = 1 -> "{p(" \o t \o ")} :- " \o dom \o "."
       [] tmpl = 2 -> ":- " \o dom \o ", not p(" \o t \o ")."
       [] tmpl = 3 -> "r(X) :- " \o dom \o ", p(" \o t \o ")."
       [] tmpl = 4 -> "r(X) :- " \o dom \o ", not p(" \o t \o ")."
       [] tmpl = 5 -> "r(X) :- " \o dom \o ", not not p(" \o t \o ")."
       [] tmpl = 6 -> "r(X) :- " \o dom \o ", " \o t \o " " \o rel \o " 1."
       [] tmpl = 7 -> "r(X) :- " \o dom \o ", X = " \o t \o "."
       [] tmpl = 8 -> "p(" \o t \o ", X) :- " \o dom \o "."
SysTotal == NTemplates * NTerms
Stride == atoi(IOEnv.GEN_STRIDE)
SysCase(n) ==
  LET idx == (Seed0 * 97 + n * Stride) % SysTotal
  IN [id |-> "s" \o ToString(idx), prog |-> SysRule(idx % NTemplates, idx \div NTemplates)]

Case(n, sd) ==
  CASE Mode = "program" -> ProgramCase(n, sd)
    [] Mode = "sysrule" -> SysCase(n)

VARIABLES n, sd
Init == n = 0 /\ sd = Start
Next == /\ n < Count
        /\ PrintT(ToJson(Case(n, sd)))
        /\ n' = n + 1
        /\ sd' = Mix(sd, n)
Spec == Init /\ [][Next]_<<n, sd>>
=============================================================================
