--------------------------------- MODULE Gen ---------------------------------
(***************************************************************************)
(* Specification -> implementation direction: TLC derives inputs from the  *)
(* grammars of anthem's two languages and prints them as JSON cases which  *)
(* the harness replays into the real code.                                 *)
(*                                                                         *)
(* The generator is a BEHAVIOUR: state (n, sd); one step derives case n    *)
(* from the seed and advances a small linear congruential generator (two   *)
(* 16-bit streams - TLC integers are 32 bit), so runs are reproducible for *)
(* equal VERIF_SEED and there is no recursion over the number of cases.    *)
(* MODE selects the grammar, COUNT the number of cases.                    *)
(*                                                                         *)
(* Identifier pools are adversarial on purpose: I J K Q R Z Z1 V V1 N0 ... *)
(* are the names anthem's translators choose as "fresh".                   *)
(***************************************************************************)
EXTENDS Integers, Sequences, TLC, Json, IOUtils, Syntax

Mode == IOEnv.GEN_MODE
Count == atoi(IOEnv.GEN_COUNT)
Seed0 == atoi(IOEnv.VERIF_SEED)
Depth == atoi(IOEnv.GEN_DEPTH)

\* ---------------------------------------------------------------- pseudo-random stream
Nx(sd) == <<(sd[1] * 1103 + 12347) % 46337, (sd[2] * 2311 + 9973) % 46309>>
Val(sd) == sd[1] + sd[2]
Pick(sd, seq) == seq[(Val(sd) % Len(seq)) + 1]
Mix(sd, k) == Nx(<<(sd[1] + 7 * k) % 46337, (sd[2] + 13 * k) % 46309>>)
Start == Nx(Nx(<<(Seed0 * 31 + 17) % 46337, (Seed0 * 57 + 5) % 46309>>))

VarPool == <<"X", "Y", "Z", "I", "J", "K", "V", "V1", "Z1", "Q", "R", "N0", "I1", "J1", "N", "X1", "V2", "Z2", "K1", "N10">>
Nums == <<"0", "1", "2", "3", "-1", "-2", "5">>
Syms == <<"a", "b", "c">>
BinOps == <<"+", "-", "*", "/", "\\", "..", "+", "*">>
Rels == <<"=", "!=", "<", "<=", ">", ">=">>
Preds1 == <<"p", "q", "r">>

\* ---------------------------------------------------------------- mini-gringo terms, rules, programs
\* every function returns [s |-> text, sd |-> next seed]
\* top-level leaves may be anything; leaves under arithmetic are mostly variables and numerals
Leaf(sd, vs, arith) ==
  LET c == Val(sd) % 100
      s1 == Nx(sd)
      symAt == IF arith THEN 95 ELSE 80
  IN IF c < 45 THEN [s |-> Pick(s1, vs), sd |-> Nx(s1)]
     ELSE IF c < symAt THEN [s |-> Pick(s1, Nums), sd |-> Nx(s1)]
     ELSE IF c < 97 THEN [s |-> Pick(s1, Syms), sd |-> Nx(s1)]
     ELSE IF c < 99 THEN [s |-> "#inf", sd |-> s1]
     ELSE [s |-> "#sup", sd |-> s1]

RECURSIVE Term(_, _, _, _)
Term(sd, d, vs, arith) ==
  LET c == Val(sd) % 100
      s1 == Nx(sd)
  IN IF d = 0 \/ c < 40 THEN Leaf(s1, vs, arith)
     ELSE IF c < 46 THEN LET a == Term(s1, d - 1, vs, TRUE) IN [s |-> "-(" \o a.s \o ")", sd |-> a.sd]
     ELSE LET op == Pick(s1, BinOps)
              a == Term(Nx(s1), d - 1, vs, TRUE)
              b == Term(a.sd, d - 1, vs, TRUE)
          IN [s |-> "(" \o a.s \o " " \o op \o " " \o b.s \o ")", sd |-> b.sd]

\* an atom  p(t) ; occasionally binary  t(t1,t2)  or propositional  s
Atom(sd, d, vs, preds) ==
  LET c == Val(sd) % 100
      s1 == Nx(sd)
  IN IF c < 8 THEN [s |-> "s", sd |-> s1]
     ELSE IF c < 16 THEN LET a == Term(s1, d, vs, FALSE) b == Term(a.sd, d, vs, FALSE)
                         IN [s |-> "t(" \o a.s \o "," \o b.s \o ")", sd |-> b.sd]
     ELSE LET p == Pick(s1, preds) a == Term(Nx(s1), d, vs, FALSE)
          IN [s |-> p \o "(" \o a.s \o ")", sd |-> a.sd]

BodyElem(sd, d, vs) ==
  LET c == Val(sd) % 100
      s1 == Nx(sd)
  IN IF c < 30
     THEN LET a == Term(s1, d, vs, FALSE) rel == Pick(a.sd, Rels) b == Term(Nx(a.sd), d, vs, FALSE)
          IN [s |-> a.s \o " " \o rel \o " " \o b.s, sd |-> b.sd]
     ELSE LET sign == IF c < 70 THEN "" ELSE IF c < 88 THEN "not " ELSE "not not "
              a == Atom(s1, d, vs, Preds1)
          IN [s |-> sign \o a.s, sd |-> a.sd]

\* a safety literal  q(X)  for a variable, so that many rules are safe (and instances are pruned)
Safety(sd, vs) == [s |-> Pick(sd, <<"q", "r">>) \o "(" \o Pick(Nx(sd), vs) \o ")", sd |-> Nx(Nx(sd))]

RECURSIVE Body(_, _, _, _)
Body(sd, n, d, vs) ==
  IF n = 0 THEN [s |-> "", sd |-> sd]
  ELSE LET e == BodyElem(sd, d, vs)
           r == Body(e.sd, n - 1, d, vs)
       IN [s |-> IF r.s = "" THEN e.s ELSE e.s \o ", " \o r.s, sd |-> r.sd]

Rule(sd, d) ==
  LET v1 == Pick(sd, VarPool)
      v2 == Pick(Nx(sd), VarPool)
      s2 == Nx(Nx(sd))
      vs == IF Val(s2) % 3 = 0 THEN <<v1>> ELSE <<v1, v2>>
      s3 == Nx(s2)
      hk == Val(s3) % 100
      h == IF hk < 55 THEN Atom(Nx(s3), d, vs, <<"p", "p", "r">>)
           ELSE IF hk < 80 THEN LET a == Atom(Nx(s3), d, vs, <<"p", "p", "r">>) IN [s |-> "{" \o a.s \o "}", sd |-> a.sd]
           ELSE [s |-> "", sd |-> Nx(s3)]
      nb == Val(h.sd) % 3
      b == Body(Nx(h.sd), nb, d, vs)
      sf == IF Val(b.sd) % 100 < 65 THEN Safety(Nx(b.sd), vs) ELSE [s |-> "", sd |-> Nx(b.sd)]
      body == IF b.s = "" THEN sf.s ELSE IF sf.s = "" THEN b.s ELSE sf.s \o ", " \o b.s
  IN [s |-> IF body = "" THEN (IF h.s = "" THEN ":- q(0)." ELSE h.s \o ".") ELSE h.s \o " :- " \o body \o ".",
      sd |-> sf.sd]

RECURSIVE Rules(_, _, _)
Rules(sd, n, d) ==
  IF n = 0 THEN [s |-> "", sd |-> sd]
  ELSE LET r == Rule(sd, d) rest == Rules(r.sd, n - 1, d)
       IN [s |-> IF rest.s = "" THEN r.s ELSE r.s \o " " \o rest.s, sd |-> rest.sd]

ProgramCase(n, sd) ==
  LET k == 1 + (Val(sd) % 3)
      p == Rules(Nx(sd), k, Depth)
  IN [id |-> "g" \o ToString(n), prog |-> p.s]

\* ---------------------------------------------------------------- systematic rules (exhaustive small grammar)
\* every term of depth <= 1 over a small leaf pool, in every syntactic position of a rule
SLeaves == <<"X", "Y", "0", "1", "2", "-1", "a", "#inf", "#sup">>
SSmall == <<"X", "Y", "1", "2", "-1">>
SOps == <<"+", "-", "*", "/", "\\", "..">>
NL == Len(SLeaves)
NS == Len(SSmall)
NB == Len(SOps) * NS * NS
NTerms == NL + NS + NB
STerm(i) ==     \* 0-based index
  IF i < NL THEN SLeaves[i + 1]
  ELSE IF i < NL + NS THEN "-(" \o SSmall[i - NL + 1] \o ")"
  ELSE LET j == i - NL - NS
           op == SOps[(j \div (NS * NS)) + 1]
           a == SSmall[((j \div NS) % NS) + 1]
           b == SSmall[(j % NS) + 1]
       IN "(" \o a \o " " \o op \o " " \o b \o ")"
HasY(i) == IF i < NL THEN SLeaves[i + 1] = "Y"
           ELSE IF i < NL + NS THEN SSmall[i - NL + 1] = "Y"
           ELSE LET j == i - NL - NS IN SSmall[((j \div NS) % NS) + 1] = "Y" \/ SSmall[(j % NS) + 1] = "Y"
NTemplates == 9
SysRule(tmpl, i) ==
  LET t == STerm(i)
      dom == IF HasY(i) THEN "q(X), q(Y)" ELSE "q(X)"
      rel == Rels[(i % 6) + 1]
  IN CASE tmpl = 0 -> "p(" \o t \o ") :- " \o dom \o "."
       [] tmpl = 1 -> "{p(" \o t \o ")} :- " \o dom \o "."
       [] tmpl = 2 -> ":- " \o dom \o ", not p(" \o t \o ")."
       [] tmpl = 3 -> "r(X) :- " \o dom \o ", p(" \o t \o ")."
       [] tmpl = 4 -> "r(X) :- " \o dom \o ", not p(" \o t \o ")."
       [] tmpl = 5 -> "r(X) :- " \o dom \o ", not not p(" \o t \o ")."
       [] tmpl = 6 -> "r(X) :- " \o dom \o ", " \o t \o " " \o rel \o " 1."
       [] tmpl = 7 -> "r(X) :- " \o dom \o ", X = " \o t \o "."
       [] tmpl = 8 -> "p(" \o t \o ", X) :- " \o dom \o "."
SysTotal == NTemplates * NTerms
Stride == atoi(IOEnv.GEN_STRIDE)
SysCase(n) ==
  LET idx == (Seed0 * 97 + n * Stride) % SysTotal
  IN [id |-> "s" \o ToString(idx), prog |-> SysRule(idx % NTemplates, idx \div NTemplates)]

\* nested terms of depth 2 in head, body literal and comparison position
S2 == <<"X", "1", "2">>
NestTotalTerms == 3 + 54 + 972 + 972
NestTerm(i) ==
  IF i < 3 THEN "-(-(" \o S2[i + 1] \o "))"
  ELSE IF i < 57 THEN LET j == i - 3 IN "-(" \o S2[((j \div 3) % 3) + 1] \o " " \o SOps[(j \div 9) + 1] \o " " \o S2[(j % 3) + 1] \o ")"
  ELSE LET j == (i - 57) % 972
           left == i - 57 < 972
           op1 == SOps[(j \div 162) + 1]
           op2 == SOps[((j \div 27) % 6) + 1]
           a == S2[((j \div 9) % 3) + 1]
           b == S2[((j \div 3) % 3) + 1]
           c == S2[(j % 3) + 1]
           inner == "(" \o a \o " " \o op1 \o " " \o b \o ")"
       IN IF left THEN "(" \o inner \o " " \o op2 \o " " \o c \o ")" ELSE "(" \o c \o " " \o op2 \o " " \o inner \o ")"
NestCase(n) ==
  LET idx == (Seed0 * 89 + n * Stride) % (3 * NestTotalTerms)
      t == NestTerm(idx \div 3)
      k == idx % 3
  IN [id |-> "n" \o ToString(idx),
      prog |-> IF k = 0 THEN "p(" \o t \o ") :- q(X)."
               ELSE IF k = 1 THEN "r(X) :- q(X), p(" \o t \o ")."
               ELSE "r(X) :- q(X), " \o t \o " " \o Rels[((idx \div 3) % 6) + 1] \o " 1."]

\* every pair of adversarial variable names in the positions where the translators pick fresh names
NPool == Len(VarPool)
NameCase(n) ==
  LET idx == (Seed0 * 83 + n * Stride) % (8 * NPool * NPool)
      a == VarPool[((idx \div 8) \div NPool) + 1]
      b == VarPool[((idx \div 8) % NPool) + 1]
      k == idx % 8
      dom == IF a = b THEN "q(" \o a \o ")" ELSE "q(" \o a \o "), q(" \o b \o ")"
  IN [id |-> "v" \o ToString(idx),
      prog |-> CASE k = 0 -> "t(" \o a \o ", " \o b \o ") :- " \o dom \o "."
                 [] k = 1 -> "s :- t(" \o a \o ", " \o b \o ")."
                 [] k = 2 -> "s :- " \o dom \o ", " \o a \o " < " \o b \o " + 1."
                 [] k = 3 -> "p(" \o a \o " / " \o b \o ") :- " \o dom \o "."
                 [] k = 4 -> "p(" \o a \o " .. " \o b \o ") :- " \o dom \o "."
                 [] k = 5 -> "s :- " \o dom \o ", not t(" \o a \o " + 1, " \o b \o " \\ 2)."
                 [] k = 6 -> "{t(" \o a \o " * 2, " \o b \o ")} :- " \o dom \o "."
                 [] k = 7 -> "p(" \o a \o ") :- " \o dom \o ", " \o a \o " = 1 .. " \o b \o ". p(" \o b \o ", " \o a \o ", 1) :- " \o dom \o "."]

\* ---------------------------------------------------------------- sigma_0 formulas
Small == Mode \in {"subst", "redex"}       \* substitution cases want collisions: tiny variable pools
GVars == IF Small THEN <<"X", "Y", "Y1">> ELSE <<"X", "Y", "Z", "V1", "Y1">>
IVars == IF Small THEN <<"N$i", "X$i", "N1$i">> ELSE <<"N$i", "I$i", "X$i", "J$i", "Y$i">>      \* X$i / Y$i: same name as a general variable, other sort
SVars == IF Small THEN <<"X$s", "S$s">> ELSE <<"S$s", "X$s">>
FNums == <<"0", "1", "2", "-1", "3">>
FSyms == <<"a", "b">>
IOps == <<"+", "-", "*">>
FPreds == <<"p", "q", "hp", "p">>
Conns == <<"and", "or", "->", "<-", "<->", "and", "or", "->">>

IntLeaf(sd) ==
  IF Val(sd) % 100 < 55 THEN [s |-> Pick(Nx(sd), IVars), sd |-> Nx(Nx(sd))]
  ELSE [s |-> Pick(Nx(sd), FNums), sd |-> Nx(Nx(sd))]
RECURSIVE IntTerm(_, _)
IntTerm(sd, d) ==
  LET c == Val(sd) % 100
      s1 == Nx(sd)
  IN IF d = 0 \/ c < 50 THEN IntLeaf(s1)
     ELSE IF c < 58 THEN LET a == IntTerm(s1, d - 1) IN [s |-> "-(" \o a.s \o ")", sd |-> a.sd]
     ELSE LET op == Pick(s1, IOps) a == IntTerm(Nx(s1), d - 1) b == IntTerm(a.sd, d - 1)
          IN [s |-> "(" \o a.s \o " " \o op \o " " \o b.s \o ")", sd |-> b.sd]
GenTerm(sd, d) ==
  LET c == Val(sd) % 100
      s1 == Nx(sd)
  IN IF c < 35 THEN [s |-> Pick(s1, GVars), sd |-> Nx(s1)]
     ELSE IF c < 68 THEN IntTerm(s1, d)
     ELSE IF c < 80 THEN [s |-> Pick(s1, FSyms), sd |-> Nx(s1)]
     ELSE IF c < 88 THEN [s |-> Pick(s1, SVars), sd |-> Nx(s1)]
     ELSE IF c < 94 THEN [s |-> "#inf", sd |-> s1]
     ELSE [s |-> "#sup", sd |-> s1]
RECURSIVE Guards(_, _, _)
Guards(sd, n, d) ==
  IF n = 0 THEN [s |-> "", sd |-> sd]
  ELSE LET rel == Pick(sd, Rels) t == GenTerm(Nx(sd), d) r == Guards(t.sd, n - 1, d)
       IN [s |-> " " \o rel \o " " \o t.s \o r.s, sd |-> r.sd]
FAtomic(sd, d) ==
  LET c == Val(sd) % 100
      s1 == Nx(sd)
  IN IF c < 38 THEN LET p == Pick(s1, FPreds) t == GenTerm(Nx(s1), d) IN [s |-> p \o "(" \o t.s \o ")", sd |-> t.sd]
     ELSE IF c < 46 THEN LET a == GenTerm(s1, d) b == GenTerm(a.sd, d) IN [s |-> "t(" \o a.s \o ", " \o b.s \o ")", sd |-> b.sd]
     ELSE IF c < 54 THEN [s |-> "r", sd |-> s1]
     ELSE IF c < 90 THEN LET t == GenTerm(s1, d)
                             ng == IF Val(t.sd) % 10 < 7 THEN 1 ELSE IF Val(t.sd) % 10 < 9 THEN 2 ELSE 3
                             g == Guards(Nx(t.sd), ng, d)
                         IN [s |-> t.s \o g.s, sd |-> g.sd]
     ELSE IF c < 95 THEN [s |-> "#true", sd |-> s1]
     ELSE [s |-> "#false", sd |-> s1]
QVars(sd) ==
  LET pool == IF Small THEN <<"X", "Y", "Y1", "N$i", "X$i", "N1$i", "Y", "X$s", "Y2", "S$s">>
              ELSE <<"X", "Y", "Z", "N$i", "I$i", "X$i", "S$s", "Y1", "V1", "J$i">>
      a == Pick(sd, pool)
      b == Pick(Nx(sd), pool)
  IN [s |-> IF Val(Nx(Nx(sd))) % 3 = 0 THEN a \o " " \o b ELSE a, sd |-> Nx(Nx(Nx(sd)))]
RECURSIVE Form(_, _, _)
Form(sd, d, td) ==
  LET c == Val(sd) % 100
      s1 == Nx(sd)
  IN IF d = 0 \/ c < 22 THEN FAtomic(s1, td)
     ELSE IF c < 32 THEN LET a == Form(s1, d - 1, td) IN [s |-> "not (" \o a.s \o ")", sd |-> a.sd]
     ELSE IF c < 78 THEN LET op == Pick(s1, Conns) a == Form(Nx(s1), d - 1, td) b == Form(a.sd, d - 1, td)
                         IN [s |-> "(" \o a.s \o " " \o op \o " " \o b.s \o ")", sd |-> b.sd]
     ELSE LET q == IF c < 89 THEN "forall" ELSE "exists"
              v == QVars(s1)
              a == Form(v.sd, d - 1, td)
          IN [s |-> q \o " " \o v.s \o " (" \o a.s \o ")", sd |-> a.sd]

FormulaCase(n, sd) == [id |-> "f" \o ToString(n), f |-> Form(sd, Depth, 1).s]

\* substitution triples: variable and a sort-compatible term (C17)
SubstCase(n, sd) ==
  LET f == Form(sd, Depth, 1)
      kk == Val(f.sd) % 10
      k == IF kk < 6 THEN 0 ELSE IF kk < 9 THEN 1 ELSE 2
      \* also the names anthem would pick as FRESH for a binder it has to rename (X1, Y1, N1$i ...), whether or not they occur
      v == IF k = 0 THEN Pick(Nx(f.sd), <<"X", "X", "Y", "Y1", "X1", "X">>) ELSE IF k = 1 THEN Pick(Nx(f.sd), <<"N$i", "X$i", "N1$i", "X1$i", "N$i">>)
           ELSE Pick(Nx(f.sd), SVars \o <<"S1$s", "X1$s">>)
      s2 == Nx(Nx(f.sd))
      t == IF k = 0 THEN GenTerm(s2, 1) ELSE IF k = 1 THEN IntTerm(s2, 2)
           ELSE [s |-> Pick(s2, <<"a", "S$s", "X$s", "b">>), sd |-> Nx(s2)]
  IN [id |-> "u" \o ToString(n), f |-> f.s, var |-> v, term |-> t.s]

\* ---------------------------------------------------------------- simplifier redexes (C07, C18)
\* the left-hand sides of anthem's rewrite rules, instantiated with arbitrary sub-formulas and terms
NRedex == 56
Redex(k, F, G, T, U, I, J) ==
  CASE k = 0 -> "(" \o F \o " and #true)"
    [] k = 1 -> "(#true and " \o F \o ")"
    [] k = 2 -> "(" \o F \o " or #false)"
    [] k = 3 -> "(#false or " \o F \o ")"
    [] k = 4 -> "(#true -> " \o F \o ")"
    [] k = 5 -> "(" \o F \o " or #true)"
    [] k = 6 -> "(" \o F \o " and #false)"
    [] k = 7 -> "(" \o F \o " -> #true)"
    [] k = 8 -> "(#false -> " \o F \o ")"
    [] k = 9 -> "(" \o F \o " -> " \o F \o ")"
    [] k = 10 -> "(" \o F \o " and " \o F \o ")"
    [] k = 11 -> "(" \o F \o " or " \o F \o ")"
    [] k = 12 -> "(" \o F \o " -> #false)"
    [] k = 13 -> "(" \o F \o " <- " \o G \o ")"
    [] k = 14 -> "((" \o F \o " -> " \o G \o ") and (" \o G \o " -> " \o F \o "))"
    [] k = 15 -> "not not " \o "(" \o F \o ")"
    [] k = 16 -> "exists X (X = " \o T \o " and " \o F \o ")"
    [] k = 17 -> "exists X$i (X$i = " \o I \o " and " \o F \o ")"
    [] k = 18 -> "exists X (" \o F \o " and " \o T \o " = X)"
    [] k = 19 -> "exists X$i (X$i = " \o I \o " and " \o F \o " and X$i = " \o I \o ")"
    [] k = 20 -> "exists X Y (X = " \o T \o " and Y = " \o T \o " and " \o F \o ")"
    [] k = 21 -> "exists X$i Y (X$i = " \o I \o " and Y = " \o I \o " and " \o F \o ")"
    [] k = 22 -> "exists Y (exists N$i X$i (N$i = Y and " \o F \o ") and " \o G \o ")"
    [] k = 23 -> "forall Y (exists N$i (N$i = Y and " \o F \o ") -> " \o G \o ")"
    [] k = 24 -> "exists Y (exists N$i Y (N$i = Y and " \o F \o ") and " \o G \o ")"
    [] k = 25 -> "(exists X (" \o F \o ") and " \o G \o ")"
    [] k = 26 -> "(" \o G \o " or forall X (" \o F \o "))"
    [] k = 27 -> "(forall X$i (" \o F \o ") and " \o G \o ")"
    [] k = 28 -> "(" \o G \o " and exists Y (" \o F \o "))"
    [] k = 29 -> "exists X (exists Y (" \o F \o "))"
    [] k = 30 -> "forall X (forall X (" \o F \o "))"
    [] k = 31 -> "exists X Y N$i (" \o F \o ")"
    [] k = 32 -> "forall X$i (forall X (" \o F \o "))"
    [] k = 33 -> T \o " = " \o T
    [] k = 34 -> T \o " != " \o T
    [] k = 35 -> T \o " < " \o U \o " <= " \o U
    [] k = 36 -> "exists X (X = " \o T \o " and exists X (" \o F \o "))"
    [] k = 37 -> "exists X Y (X = Y and " \o F \o " and X = Y)"
    [] k = 38 -> "exists X$i N$i (X$i = " \o J \o " and N$i = " \o J \o " and " \o F \o ")"
    [] k = 39 -> "exists X (X = " \o I \o " and " \o I \o " = X and " \o F \o ")"
    [] k = 40 -> "forall X (X = " \o T \o " -> " \o F \o ")"
    [] k = 41 -> "exists X$i (" \o F \o " and X$i = " \o J \o " and " \o G \o " and X$i = " \o J \o ")"
    [] k = 42 -> "(" \o F \o " <-> " \o F \o ")"
    [] k = 43 -> "exists X Y$i (X = Y$i and " \o F \o ")"
    [] k = 44 -> "exists X (X = Y and exists Y Y1 (" \o F \o " and t(X, Y1)))"
    [] k = 45 -> "forall Y (exists X (X = Y and exists Y Y1 (t(X, Y) and " \o F \o ")))"
    [] k = 46 -> "exists X$i (X$i = N$i + 1 and exists N$i N1$i (" \o F \o " and p(X$i + N1$i)))"
    [] k = 47 -> "exists X (X = " \o T \o " and forall Y Y1 X$i (t(X, Y) -> " \o F \o "))"
    [] k = 48 -> "exists X Y (X = Y1 and Y = X and exists Y1 (t(X, Y1) and " \o F \o "))"
    [] k = 49 -> "exists X$s (X$s = S$s and exists S$s (t(X$s, S$s) and " \o F \o "))"
    [] k = 50 -> "exists X$i S$s (X$i = " \o T \o " and S$s = " \o T \o " and " \o F \o ")"
    [] k = 51 -> "exists S$s N$i (" \o F \o " and S$s = Y and p(S$s) and N$i = Y)"
    [] k = 52 -> "(not " \o F \o " -> " \o F \o ")"
    [] k = 53 -> "(" \o F \o " -> not " \o F \o ")"
    [] k = 54 -> "((" \o F \o " -> " \o G \o ") -> " \o F \o ")"
    [] k = 55 -> "(not not " \o F \o " -> " \o F \o ") and (" \o F \o " or not " \o F \o ")"
RedexCase(n, sd) ==
  LET k == (n + Seed0) % NRedex
      f == Form(sd, 1, 1)
      g == Form(f.sd, 1, 1)
      t == GenTerm(g.sd, 1)
      u == GenTerm(t.sd, 1)
      i == IntTerm(u.sd, 1)
      j == IntTerm(i.sd, 2)
      core == Redex(k, f.s, g.s, t.s, u.s, i.s, j.s)
      \* sometimes put the redex under a connective or quantifier, so that strategies differ
      w == Val(j.sd) % 6
      h == Form(Nx(j.sd), 1, 1)
  IN [id |-> "x" \o ToString(n),
      f |-> IF w = 0 THEN "(" \o h.s \o " and " \o core \o ")"
            ELSE IF w = 1 THEN "forall Y (" \o core \o " -> " \o h.s \o ")"
            ELSE IF w = 2 THEN "not (" \o core \o ")"
            ELSE core]


\* ---------------------------------------------------------------- theories around the completable fragment (C04 b)
THeads == <<"p(X)", "p(X)", "p(X, Y)", "p(1)", "p(X, X)", "p(X$i)", "p(X, X$i)", "p(a)", "p(X$i + 1)", "#false", "#true", "s",
            "p(Y)", "p(Y, X)", "r(X)", "p(X)", "p(X, Y)", "#false">>
TBodies == <<"q(X)", "q(X) and r(Y)", "#true", "exists Z t(X, Z)", "X = 1", "not q(X)", "q(X) and X > Y", "q(Z) and t(Z, X)",
             "q(X$i)", "q(X) and not p(X)", "q(Y)", "t(X, Y)">>
TVarsOf(h, b) ==   \* the variables that a correct universal closure binds, as text (superset is fine: orphans are legal)
  "X Y Z X$i"
TFormula(sd) ==
  LET h == Pick(sd, THeads)
      b == Pick(Nx(sd), TBodies)
      w == Val(Nx(Nx(sd))) % 20
      core == IF w % 2 = 0 THEN "(" \o b \o " -> " \o h \o ")" ELSE "(" \o h \o " <- " \o b \o ")"
  IN [s |-> IF w < 12 THEN "forall X Y Z X$i " \o core
            ELSE IF w < 14 THEN "forall X Z X$i " \o core               \* Y possibly free
            ELSE IF w < 15 THEN "forall X (forall Y Z X$i " \o core \o ")"   \* nested prefix
            ELSE IF w < 16 THEN h                                       \* a bare head
            ELSE IF w < 17 THEN "forall X Y X$i (" \o h \o ")"
            ELSE IF w < 18 THEN "forall X Y Z X$i (" \o b \o " <-> " \o h \o ")"
            ELSE IF w < 19 THEN "forall Y Z X$i " \o core               \* X possibly free
            ELSE "forall X Y Z X$i (" \o core \o " and #true)",
      sd |-> Nx(Nx(Nx(sd)))]
RECURSIVE TFormulas(_, _)
TFormulas(sd, k) == IF k = 0 THEN [s |-> "", sd |-> sd]
                    ELSE LET f == TFormula(sd) r == TFormulas(f.sd, k - 1) IN [s |-> f.s \o ". " \o r.s, sd |-> r.sd]
TheoryCase(n, sd) ==
  LET k == 1 + (Val(sd) % 3)
      t == TFormulas(Nx(sd), k)
  IN [id |-> "th" \o ToString(n), theory |-> t.s, inputs |-> IF Val(t.sd) % 3 = 0 THEN <<"q/1">> ELSE <<>>]

\* ---------------------------------------------------------------- pairs of programs (C03, C19)
PairCase(n, sd) ==
  LET k == 1 + (Val(sd) % 2)
      l == Rules(Nx(sd), k, Depth)
      c == Val(l.sd) % 100
      extra == Rule(Nx(l.sd), Depth)
      other == Rules(Nx(Nx(l.sd)), 1 + (Val(extra.sd) % 2), Depth)
      right == IF c < 35 THEN l.s \o " " \o extra.s            \* one more rule
               ELSE IF c < 55 THEN extra.s \o " " \o l.s       \* one more rule, in front
               ELSE IF c < 65 THEN l.s                          \* identical
               ELSE other.s                                     \* unrelated
  IN [id |-> "pr" \o ToString(n), left |-> l.s, right |-> right]

\* ---------------------------------------------------------------- external-equivalence tasks (C02, C19, C11)
\* vocabulary: q/1 input, p/1 output, r/1 output or private, aux/1 private (on both sides: renaming), s/0, placeholder n.
\* Programs are layered (aux over q; p over q, aux, not p/r; r over q, aux, p) so that most are tight and free of private
\* recursion; the generator deliberately also emits some that are not (anthem must refuse those: C11).
XVars == <<"X", "Y", "N0", "V1">>
XTerm(sd, v) ==
  LET c == Val(sd) % 100 IN
  IF c < 50 THEN v ELSE IF c < 60 THEN v \o " + 1" ELSE IF c < 68 THEN v \o " - 1" ELSE IF c < 74 THEN "2 * " \o v
  ELSE IF c < 80 THEN v \o " / 2" ELSE IF c < 84 THEN v \o " \\ 2" ELSE IF c < 88 THEN "0.." \o v ELSE IF c < 94 THEN Pick(Nx(sd), <<"0", "1", "2", "a">>)
  ELSE "n"
XCmp(sd, v) ==
  LET rel == Pick(sd, Rels) IN
  v \o " " \o rel \o " " \o Pick(Nx(sd), <<"0", "1", "2", "n", "n + 1", "a", "1..2">>)
\* a body literal over the allowed predicates for a head of the given layer
XLit(sd, v, layer) ==
  LET c == Val(sd) % 100
      pool == IF layer = 0 THEN <<"q">> ELSE IF layer = 1 THEN <<"q", "aux", "aux", "q">> ELSE <<"q", "aux", "p", "p">>
      negpool == IF layer = 0 THEN <<"q">> ELSE <<"q", "aux", "p", "r">>
      t == XTerm(Nx(sd), v)
  IN IF c < 45 THEN Pick(Nx(Nx(sd)), pool) \o "(" \o t \o ")"
     ELSE IF c < 65 THEN "not " \o Pick(Nx(Nx(sd)), negpool) \o "(" \o t \o ")"
     ELSE IF c < 72 THEN "not not " \o Pick(Nx(Nx(sd)), negpool) \o "(" \o t \o ")"
     ELSE IF c < 95 THEN XCmp(Nx(sd), v)
     ELSE Pick(Nx(Nx(sd)), <<"p", "aux", "r">>) \o "(" \o v \o ")"        \* may break the layering on purpose
XRule(sd, headp, layer) ==
  LET v == Pick(sd, XVars)
      ht == XTerm(Nx(sd), v)
      choice == layer > 0 /\ Val(Nx(Nx(sd))) % 100 < 18
      nb == Val(Nx(Nx(Nx(sd)))) % 3
      s4 == Mix(sd, 3)
      l1 == XLit(s4, v, layer)
      l2 == XLit(Mix(s4, 1), v, layer)
      body == "q(" \o v \o ")" \o (IF nb >= 1 THEN ", " \o l1 ELSE "") \o (IF nb >= 2 THEN ", " \o l2 ELSE "")
      head == headp \o "(" \o ht \o ")"
  IN (IF choice THEN "{" \o head \o "}" ELSE head) \o " :- " \o body \o "."
XConstraint(sd) ==
  LET v == Pick(sd, XVars) IN ":- " \o XLit(Nx(sd), v, 2) \o ", q(" \o v \o "), " \o XLit(Mix(sd, 2), v, 2) \o "."
XProgram(sd) ==
  LET c == Val(sd) % 100
      \* without its rule aux occurs in bodies only (an undefined private predicate)
      a == IF c % 5 < 3 THEN XRule(Mix(sd, 1), "aux", 0) \o " " ELSE ""
      p1 == XRule(Mix(sd, 2), "p", 1)
      p2 == IF c % 7 < 2 THEN " " \o XRule(Mix(sd, 3), "p", 1) ELSE ""
      rr == IF c % 3 = 0 THEN " " \o XRule(Mix(sd, 4), "r", 2) ELSE ""
      k == IF c % 11 < 3 THEN " " \o XConstraint(Mix(sd, 5)) ELSE ""
  IN a \o p1 \o p2 \o rr \o k
XSpecBody(sd) == Pick(sd, <<"q(X)", "q(X) and X > 0", "q(X) and not exists Y (q(Y) and Y < X)", "q(X) and X != n", "q(X) or X = 1",
                            "exists N$i (X = N$i and q(X))", "q(X) and aux(X)", "q(X) and exists Y (Y = X + 1 and q(Y))",
                            "q(X) and X > -n$i", "q(X) and exists N$i (N$i = -(n$i) and X > N$i)">>)
\* arbitrary closed formulas over the public vocabulary (equivalences under either quantifier, nested quantifiers ...)
XAtomF(sd) ==
  LET c == Val(sd) % 100
      v == Pick(Nx(sd), <<"X", "Y", "X", "Z">>)
  IN IF c < 35 THEN "p(" \o v \o ")" ELSE IF c < 70 THEN "q(" \o v \o ")"
     ELSE IF c < 85 THEN v \o " " \o Pick(Nx(Nx(sd)), Rels) \o " " \o Pick(Mix(sd, 2), <<"0", "1", "Y", "X + 1", "a", "n">>)
     ELSE IF c < 93 THEN "p(" \o v \o " + 1)" ELSE "q(0)"
RECURSIVE XForm(_, _)
XForm(sd, d) ==
  LET c == Val(sd) % 100 IN
  IF d = 0 \/ c < 25 THEN XAtomF(Nx(sd))
  ELSE IF c < 35 THEN "not " \o XForm(Nx(sd), d - 1)
  ELSE IF c < 85 THEN "(" \o XForm(Mix(sd, 1), d - 1) \o " " \o Pick(Nx(sd), <<"and", "or", "->", "<->", "<->", "<-">>) \o " " \o XForm(Mix(sd, 2), d - 1) \o ")"
  ELSE Pick(Nx(sd), <<"exists Y (", "forall Y (", "exists Z (">>) \o XForm(Mix(sd, 3), d - 1) \o ")"
XClosed(sd) == Pick(sd, <<"forall X Y Z (", "exists X (forall Y Z (", "exists X Y Z (", "forall X (exists Y Z (">>) \o XForm(Nx(sd), 2)
               \o (IF Val(sd) % 4 \in {1, 3} THEN "))" ELSE ")")
XDir(sd) == Pick(sd, <<"", "", "", "(forward)", "(backward)", "(universal)">>)
XSpec(sd) ==
  LET c == Val(sd) % 100
      f1 == "spec" \o XDir(Mix(sd, 1)) \o ": forall X (p(X) <-> " \o XSpecBody(Mix(sd, 2)) \o ")."
      f2 == IF c % 3 = 0 THEN " spec" \o XDir(Mix(sd, 3)) \o ": forall X (p(X) -> q(X))." ELSE ""
      f3 == IF c % 4 = 0 THEN " assumption" \o XDir(Mix(sd, 4)) \o ": forall X (q(X) -> " \o Pick(Mix(sd, 5), <<"X != 2", "X > 0", "X != a", "X >= n">>) \o ")." ELSE ""
      f4 == IF c % 9 = 0 THEN " spec: forall X Y (p(X) and p(Y) -> X = Y)." ELSE ""
      f5 == IF c % 13 = 0 THEN " spec" \o XDir(Mix(sd, 6)) \o ": forall X (r(X) <-> q(X) and not p(X))." ELSE ""
      g1 == "spec" \o XDir(Mix(sd, 7)) \o ": " \o XClosed(Mix(sd, 8)) \o "."
  IN IF c % 5 < 2 THEN g1 \o f2 \o f3 ELSE f1 \o f2 \o f3 \o f4 \o f5
XUserGuide(sd) ==
  LET c == Val(sd) % 100 IN
  "input: q/1. output: p/1."
  \o (IF c % 2 = 0 THEN " output: r/1." ELSE "")
  \o " input: n -> integer."
  \o (IF c % 5 = 0 THEN " assumption: forall X (q(X) -> " \o Pick(Nx(sd), <<"X > 0", "X != a", "X >= n", "exists N$i (N$i = X)">>) \o ")." ELSE "")
  \o (IF c % 7 = 0 THEN " assumption: n > 0." ELSE "")
  \o (IF c % 11 = 0 THEN " assumption: forall X (q(X) -> X > -n$i)." ELSE "")
ExtCase(n, sd) ==
  LET l == XProgram(Mix(sd, 11))
      c == Val(sd) % 100
      r0 == XProgram(Mix(sd, 12))
      right == IF c < 30 THEN l \o " " \o XRule(Mix(sd, 13), "p", 1)
               ELSE IF c < 40 THEN l
               ELSE IF c < 50 THEN l \o " " \o XConstraint(Mix(sd, 14))
               ELSE r0
      ug == XUserGuide(Mix(sd, 15))
  IN IF c % 4 = 3
     THEN [id |-> "xs" \o ToString(n), task |-> "external", spec |-> XSpec(Mix(sd, 16)), right |-> right, ug |-> ug]
     ELSE [id |-> "xp" \o ToString(n), task |-> "external", left |-> l, right |-> right, ug |-> ug]

\* ---------------------------------------------------------------- abstract programs (C11): all dependency shapes
\* predicates p/1, p/2 (same name!), q/1, r/0; a rule = head kind x head predicate x up to two signed body literals
APreds == <<"p(X)", "p(X, Y)", "q(X)", "r">>
ASigns == <<"", "not ", "not not ">>
NALit == 1 + Len(APreds) * Len(ASigns)            \* 0 = no literal
ALit(i) == IF i = 0 THEN "" ELSE ASigns[((i - 1) % 3) + 1] \o APreds[((i - 1) \div 3) + 1]
NAHead == 1 + 2 * Len(APreds)                     \* 0 = constraint
AHead(i) == IF i = 0 THEN "" ELSE IF i <= 4 THEN APreds[i] ELSE "{" \o APreds[i - 4] \o "}"
NARule == NAHead * NALit * NALit
ARule(i) ==
  LET h == AHead(i % NAHead)
      l1 == ALit((i \div NAHead) % NALit)
      l2 == ALit(i \div (NAHead * NALit))
      body == IF l1 = "" THEN l2 ELSE IF l2 = "" THEN l1 ELSE l1 \o ", " \o l2
  IN IF body = "" THEN (IF h = "" THEN ":- q(0)." ELSE h \o ".") ELSE h \o " :- " \o body \o "."
AbsCase(n) ==
  LET total == NARule * NARule
      idx == (Seed0 * 7919 + n * Stride) % total
      third == (n * 37 + Seed0) % NARule
      base == ARule(idx % NARule) \o " " \o ARule(idx \div NARule)
  IN [id |-> "abs" \o ToString(n), prog |-> IF n % 3 = 0 THEN base \o " " \o ARule(third) ELSE base]
\* long cycles through 4 - 6 predicates, positive except possibly one edge
CycleCase(n, sd) ==
  LET len == 3 + (Val(sd) % 4)
      neg == Val(Nx(sd)) % (2 * len)           \* index of a negated edge, or none if >= len
      Pn(i) == "c" \o ToString(i % len)
      rule(i) == Pn(i) \o "(X) :- " \o (IF i = neg THEN Pick(Nx(Nx(sd)), <<"not ", "not not ">>) ELSE "") \o Pn(i + 1) \o "(X), q(X)."
      RECURSIVE all(_)
      all(i) == IF i = len THEN "" ELSE rule(i) \o " " \o all(i + 1)
      \* a predicate outside the cycle that depends on it, written BEFORE the cycle (the cycle is first entered from outside)
      outside == IF Val(Mix(sd, 7)) % 2 = 0 THEN "goal(X) :- " \o Pn(Val(Mix(sd, 8)) % len) \o "(X), q(X). " ELSE ""
      extra == IF Val(Mix(sd, 9)) % 3 = 0 THEN Pn(1) \o "(X) :- q(X). " ELSE ""      \* a second, non-recursive rule for a cycle predicate
  IN [id |-> "cyc" \o ToString(n), prog |-> outside \o all(0) \o extra]

\* tasks that violate (or only seem to violate) exactly one applicability condition (C11)
BadCase(n, sd) ==
  LET b == ExtCase(n, sd)
      k == n % 21
      isSpec == "spec" \in DOMAIN b
      AddR(x) == [b EXCEPT !.right = @ \o " " \o x]
      AddU(x) == [b EXCEPT !.ug = @ \o " " \o x]
      c == CASE k = 0 -> AddU("output: q/1.")
             [] k = 1 -> AddR("q(5).")
             [] k = 2 -> AddU("assumption: forall X (p(X) -> q(X)).")
             [] k = 3 -> AddU("input: n.")
             [] k = 4 -> AddU("input: n -> integer.")
             [] k = 5 -> AddR("p(X) :- p(X + 1), q(X).")
             [] k = 6 -> AddR("aux(X) :- q(X), not aux(X + 1).")
             [] k = 7 -> AddR("{aux(X)} :- q(X).")
             [] k = 8 -> IF isSpec THEN [b EXCEPT !.spec = @ \o " assumption: forall X (p(X) -> q(X))."]
                         ELSE [b EXCEPT !.left = @ \o " p(X) :- q(X), p(X - 1)."]
             [] k = 9 -> AddR("aux(X) :- aux(X, X), q(X). aux(X, Y) :- q(X), q(Y), not aux(Y).")
             [] k = 10 -> AddU("assumption: forall X (aux(X) -> q(X)).")
             [] k = 11 -> AddR("p(X) :- q(X), not not p(X).")
             [] k = 12 -> AddR("aux(X) :- q(X), bux(X). bux(X) :- q(X), not not aux(X).")
             [] k = 13 -> IF isSpec THEN [b EXCEPT !.spec = @ \o " assumption: forall X (q(X) -> not aux(X))."]
                          ELSE [b EXCEPT !.left = @ \o " q(X) :- p(X), X > 100."]
             [] k = 14 -> AddU("assumption: forall X Y (q(X, Y) -> q(X)).")          \* q/2 is not the input predicate q/1
             [] k = 15 -> IF isSpec THEN [b EXCEPT !.spec = @ \o " assumption: forall X (q(X, X) -> q(X))."]
                          ELSE AddU("assumption: forall X (q -> q(X)).")                \* q/0
             [] k = 16 -> AddR("p(X, Y) :- q(X), q(Y), not p(X).")                     \* p/2 next to the output p/1: a private predicate, fine
             \* private recursion / a private choice on ONE side only, through predicates the other side does not have
             [] k = 17 -> IF isSpec THEN AddR("rux(X) :- q(X), not rux(X + 1).") ELSE [b EXCEPT !.left = @ \o " lux(X) :- q(X), not lux(X + 1)."]
             [] k = 18 -> IF isSpec THEN AddR("{rux(X)} :- q(X).") ELSE [b EXCEPT !.left = @ \o " {lux(X)} :- q(X)."]
             [] k = 19 -> IF isSpec THEN AddR("rux(X) :- q(X), not mux(X). mux(X) :- q(X), not rux(X).")
                          ELSE [b EXCEPT !.left = @ \o " lux(X) :- q(X), not mux(X). mux(X) :- q(X), not lux(X)."]
             [] k = 20 -> IF isSpec THEN AddR("rux(X) :- q(X), not not rux(X).") ELSE [b EXCEPT !.left = @ \o " lux(X) :- q(X), not not lux(X). p(X) :- lux(X), q(X)."]
  IN [c EXCEPT !.id = "bad" \o ToString(n) \o "k" \o ToString(k)]

\* ---------------------------------------------------------------- adversarial identifiers (C09, C12)
\* predicate and constant names that collide with each other, with anthem's sort suffixes, with its renaming scheme, with the
\* preamble vocabulary and with TPTP words
IdP == <<"p", "_p", "p_i", "x_g", "p__s", "general", "symbol", "f__integer__", "p__less__", "c__infimum__", "tff", "type", "hp", "tp", "n_i", "a",
         "p_1", "hq", "axiom", "s__a">>
IdS == <<"a", "_a", "a_i", "b_g", "c_s", "a__s", "general", "symbol", "n_i", "p", "q", "tff", "c__infimum__", "n", "ha", "a0", "a_1", "ha__s", "ha_1", "b">>
IdentCase(n, sd) ==
  LET P == Pick(sd, IdP)
      Sa == Pick(Nx(sd), IdS)
      Sb == Pick(Mix(sd, 2), IdS)
      k == n % 10
      ug == "input: q/1. output: " \o P \o "/1. input: n -> integer."
  IN CASE k = 0 -> [id |-> "id" \o ToString(n), task |-> "strong", left |-> P \o "(" \o Sa \o ") :- q(" \o Sb \o ").", right |-> P \o "(" \o Sa \o ") :- q(" \o Sb \o "), not q(X)."]
       [] k = 1 -> [id |-> "id" \o ToString(n), task |-> "strong", left |-> Sa \o " :- q(" \o Sa \o "), not " \o P \o "(" \o Sb \o ").", right |-> Sa \o " :- q(" \o Sa \o ")."]
       [] k = 2 -> [id |-> "id" \o ToString(n), task |-> "strong", left |-> P \o "(X) :- " \o P \o "(X, " \o Sa \o "), q(" \o Sb \o ").", right |-> P \o "(X) :- " \o P \o "(X, " \o Sa \o ")."]
       [] k = 3 -> [id |-> "id" \o ToString(n), task |-> "strong", left |-> P \o "(" \o P \o ") :- q(" \o Sa \o ", " \o Sb \o ").", right |-> P \o "(" \o P \o ") :- q(" \o Sa \o ", " \o Sb \o "), " \o Sa \o " < " \o Sb \o "."]
       [] k = 4 -> [id |-> "id" \o ToString(n), task |-> "external", left |-> P \o "(X) :- q(X), X != " \o Sa \o ", X > n.", right |-> P \o "(X) :- q(X), X > n, X != " \o Sa \o ", X != " \o Sb \o ".", ug |-> ug]
       [] k = 5 -> [id |-> "id" \o ToString(n), task |-> "external", left |-> P \o "(X) :- q(X), not " \o Sa \o ". " \o Sa \o " :- q(" \o Sa \o ").", right |-> P \o "(X) :- q(X), not q(" \o Sa \o ").", ug |-> ug]
       [] k = 6 -> [id |-> "id" \o ToString(n), task |-> "external", spec |-> "spec: forall X (" \o P \o "(X) <-> q(X) and X != " \o Sa \o " and " \o (IF n % 20 = 6 THEN "-n$i > -X" ELSE "n < X") \o ").", right |-> P \o "(X) :- q(X), X != " \o Sa \o ", X > n.", ug |-> ug]
       [] k = 7 -> [id |-> "id" \o ToString(n), task |-> "external", left |-> P \o "(X) :- q(X), " \o Sa \o "(X). " \o Sa \o "(X) :- q(X), X != " \o Sa \o ".", right |-> P \o "(X) :- q(X), X != " \o Sa \o ".", ug |-> ug]
       [] k = 8 -> [id |-> "id" \o ToString(n), task |-> "strong", left |-> "p(" \o Sa \o "). p(" \o Sb \o "). " \o P \o ".", right |-> "p(" \o Sb \o "). p(" \o Sa \o "). " \o P \o " :- not not " \o P \o "."]
       [] k = 9 -> [id |-> "id" \o ToString(n), task |-> "external", left |-> P \o "(X) :- q(X), X = " \o Sa \o ".", right |-> P \o "(" \o Sa \o ") :- q(" \o Sa \o ").", ug |-> ug \o " input: " \o Sb \o "."]

\* ---------------------------------------------------------------- concrete syntax (C14, C15, C16): the same grammars, printed LOOSELY
\* parentheses are put or omitted at random, so the texts exercise precedence and associativity of the parsers; whatever tree a
\* text parses to, printing it must give text that parses to the same tree.
LLeaves == <<"X", "Y", "1", "0", "-1", "-2", "a", "b", "#inf", "#sup", "#infimum", "#supremum", "_a", "a_B1", "N0", "10", "not", "nota">>
LOps == <<"+", "-", "*", "/", "\\", "..">>
RECURSIVE LTerm(_, _)
LTerm(sd, d) ==
  LET c == Val(sd) % 100
      s1 == Nx(sd)
  IN IF d = 0 \/ c < 30 THEN [s |-> Pick(s1, LLeaves), sd |-> Nx(s1)]
     ELSE IF c < 45
          THEN LET a == LTerm(s1, d - 1)
                   form == Val(a.sd) % 4
               IN [s |-> IF form = 0 THEN "-" \o a.s ELSE IF form = 1 THEN "- " \o a.s ELSE IF form = 2 THEN "-(" \o a.s \o ")" ELSE "--" \o a.s, sd |-> Nx(a.sd)]
     ELSE LET op == Pick(s1, LOps)
              a == LTerm(Nx(s1), d - 1)
              b == LTerm(a.sd, d - 1)
              pa == Val(b.sd) % 3
              sp == IF Val(Nx(b.sd)) % 4 = 0 THEN "" ELSE " "
              body == (IF pa = 1 THEN "(" \o a.s \o ")" ELSE a.s) \o sp \o op \o sp \o (IF pa = 2 THEN "(" \o b.s \o ")" ELSE b.s)
          IN [s |-> IF Val(Nx(Nx(b.sd))) % 5 = 0 THEN "(" \o body \o ")" ELSE body, sd |-> Nx(Nx(Nx(b.sd)))]
LAtom(sd, d) ==
  LET c == Val(sd) % 100
      s1 == Nx(sd)
      p == Pick(s1, <<"p", "q", "_p", "p_1", "nota", "r">>)
  IN IF c < 12 THEN [s |-> p, sd |-> Nx(s1)]
     ELSE IF c < 18 THEN [s |-> p \o "()", sd |-> Nx(s1)]
     ELSE IF c < 75 THEN LET a == LTerm(Nx(s1), d) IN [s |-> p \o "(" \o a.s \o ")", sd |-> a.sd]
     ELSE LET a == LTerm(Nx(s1), d) b == LTerm(a.sd, d) IN [s |-> p \o "(" \o a.s \o ", " \o b.s \o ")", sd |-> b.sd]
LBodyElem(sd, d) ==
  LET c == Val(sd) % 100
      s1 == Nx(sd)
  IN IF c < 35 THEN LET a == LTerm(s1, d) b == LTerm(a.sd, d) IN [s |-> a.s \o " " \o Pick(b.sd, Rels) \o " " \o b.s, sd |-> Nx(b.sd)]
     ELSE LET a == LAtom(s1, d) IN [s |-> Pick(a.sd, <<"", "", "not ", "not not ", "not  not ">>) \o a.s, sd |-> Nx(a.sd)]
LRule(sd, d) ==
  LET hk == Val(sd) % 100
      h == IF hk < 50 THEN LAtom(Nx(sd), d)
           ELSE IF hk < 70 THEN LET a == LAtom(Nx(sd), d) IN [s |-> "{" \o a.s \o "}", sd |-> a.sd]
           ELSE IF hk < 80 THEN [s |-> "#false", sd |-> Nx(sd)]
           ELSE [s |-> "", sd |-> Nx(sd)]
      nb == Val(h.sd) % 4
      b1 == LBodyElem(Nx(h.sd), d)
      b2 == LBodyElem(b1.sd, d)
      sep == Pick(b2.sd, <<", ", "; ", ",", " ;">>)
      body == IF nb = 0 THEN "" ELSE IF nb = 1 THEN b1.s ELSE b1.s \o sep \o b2.s
      arrow == IF nb = 0 /\ Val(b2.sd) % 3 # 0 /\ h.s # "" THEN "" ELSE " :- "
  IN [s |-> h.s \o arrow \o body \o ".", sd |-> Nx(b2.sd)]
AspSyntaxCase(n, sd) ==
  LET r1 == LRule(sd, Depth)
      r2 == LRule(r1.sd, Depth)
  IN [id |-> "as" \o ToString(n), as |-> "program", text |-> IF Val(r2.sd) % 3 = 0 THEN r1.s \o " " \o r2.s ELSE r1.s]

\* sigma_0: every spelling of the sorts, placeholders (function constants), prefix chains, chains of comparisons and of equal-
\* precedence connectives, parentheses at random
LGVars == <<"X", "Y", "_X", "X1", "V_1", "X$g", "Y$general">>
LIVars == <<"N$i", "X$i", "N$integer", "I$", "_N$i">>
LSVars == <<"S$s", "X$symbol">>
RECURSIVE LIntTerm(_, _)
LIntTerm(sd, d) ==
  LET c == Val(sd) % 100
      s1 == Nx(sd)
  IN IF d = 0 \/ c < 40 THEN [s |-> Pick(s1, <<"N$i", "X$i", "I$", "1", "0", "-1", "-3", "n$i", "c$integer", "N$integer", "2">>), sd |-> Nx(s1)]
     ELSE IF c < 52 THEN LET a == LIntTerm(s1, d - 1) form == Val(a.sd) % 3
                         IN [s |-> IF form = 0 THEN "-" \o a.s ELSE IF form = 1 THEN "-(" \o a.s \o ")" ELSE "- " \o a.s, sd |-> Nx(a.sd)]
     ELSE LET op == Pick(s1, IOps) a == LIntTerm(Nx(s1), d - 1) b == LIntTerm(a.sd, d - 1)
              pa == Val(b.sd) % 3
              body == (IF pa = 1 THEN "(" \o a.s \o ")" ELSE a.s) \o " " \o op \o " " \o (IF pa = 2 THEN "(" \o b.s \o ")" ELSE b.s)
          IN [s |-> IF Val(Nx(b.sd)) % 4 = 0 THEN "(" \o body \o ")" ELSE body, sd |-> Nx(Nx(b.sd))]
LGenTerm(sd, d) ==
  LET c == Val(sd) % 100
      s1 == Nx(sd)
  IN IF c < 25 THEN [s |-> Pick(s1, LGVars), sd |-> Nx(s1)]
     ELSE IF c < 60 THEN LIntTerm(s1, d)
     ELSE IF c < 75 THEN [s |-> Pick(s1, <<"a", "b", "_a", "a_1", "c$s", "d$symbol", "g$g", "h$general", "forall_x", "nota", "andy">>), sd |-> Nx(s1)]
     ELSE IF c < 85 THEN [s |-> Pick(s1, LSVars), sd |-> Nx(s1)]
     ELSE IF c < 93 THEN [s |-> "#inf", sd |-> s1]
     ELSE [s |-> "#sup", sd |-> s1]
RECURSIVE LGuards(_, _, _)
LGuards(sd, n, d) ==
  IF n = 0 THEN [s |-> "", sd |-> sd]
  ELSE LET rel == Pick(sd, Rels) t == LGenTerm(Nx(sd), d) r == LGuards(t.sd, n - 1, d)
       IN [s |-> " " \o rel \o " " \o t.s \o r.s, sd |-> r.sd]
LFAtomic(sd, d) ==
  LET c == Val(sd) % 100
      s1 == Nx(sd)
  IN IF c < 30 THEN LET t == LGenTerm(Nx(s1), d) IN [s |-> Pick(s1, <<"p", "q", "_p", "exists_x", "nota">>) \o "(" \o t.s \o ")", sd |-> t.sd]
     ELSE IF c < 38 THEN LET a == LGenTerm(s1, d) b == LGenTerm(a.sd, d) IN [s |-> "t(" \o a.s \o ", " \o b.s \o ")", sd |-> b.sd]
     ELSE IF c < 46 THEN [s |-> Pick(s1, <<"r", "s()", "r">>), sd |-> Nx(s1)]
     ELSE IF c < 88 THEN LET t == LGenTerm(s1, d)
                             ng == IF Val(t.sd) % 10 < 6 THEN 1 ELSE IF Val(t.sd) % 10 < 9 THEN 2 ELSE 3
                             g == LGuards(Nx(t.sd), ng, d)
                         IN [s |-> t.s \o g.s, sd |-> g.sd]
     ELSE IF c < 94 THEN [s |-> "#true", sd |-> s1]
     ELSE [s |-> "#false", sd |-> s1]
LQVars(sd) ==
  LET pool == <<"X", "Y", "N$i", "X$i", "S$s", "I$", "X$g", "_X", "N$integer", "V_1">>
      a == Pick(sd, pool)
      b == Pick(Nx(sd), pool)
      k == Val(Nx(Nx(sd))) % 4
  IN [s |-> IF k = 0 THEN a \o " " \o b ELSE IF k = 1 THEN a \o "  " \o b \o " " \o a ELSE a, sd |-> Nx(Nx(Nx(sd)))]
RECURSIVE LForm(_, _, _)
LForm(sd, d, td) ==
  LET c == Val(sd) % 100
      s1 == Nx(sd)
  IN IF d = 0 \/ c < 22 THEN LFAtomic(s1, td)
     ELSE IF c < 34 THEN LET a == LForm(s1, d - 1, td) IN [s |-> IF Val(a.sd) % 2 = 0 THEN "not " \o a.s ELSE "not (" \o a.s \o ")", sd |-> Nx(a.sd)]
     ELSE IF c < 76 THEN LET op == Pick(s1, Conns) a == LForm(Nx(s1), d - 1, td) b == LForm(a.sd, d - 1, td)
                             pa == Val(b.sd) % 4
                             body == (IF pa = 1 THEN "(" \o a.s \o ")" ELSE a.s) \o " " \o op \o " " \o (IF pa = 2 THEN "(" \o b.s \o ")" ELSE b.s)
                         IN [s |-> IF pa = 3 THEN "(" \o body \o ")" ELSE body, sd |-> Nx(b.sd)]
     ELSE LET q == IF c < 88 THEN "forall" ELSE "exists"
              v == LQVars(s1)
              a == LForm(v.sd, d - 1, td)
          IN [s |-> IF Val(a.sd) % 3 = 0 THEN q \o " " \o v.s \o " " \o a.s ELSE q \o " " \o v.s \o " (" \o a.s \o ")", sd |-> Nx(a.sd)]
LAnnotated(sd) ==
  LET role == Pick(sd, <<"assumption", "spec", "lemma", "definition", "inductive-lemma", "spec", "assumption">>)
      dir == Pick(Nx(sd), <<"", "", "(forward)", "(backward)", "(universal)", " ( forward ) ">>)
      name == Pick(Mix(sd, 2), <<"", "", "[name_1]", "[_n]", "[a]", " [ lemma ] ">>)
      f == LForm(Mix(sd, 3), Depth, 1)
  IN [s |-> role \o dir \o name \o ": " \o f.s \o ".", sd |-> f.sd]
LUgEntry(sd) ==
  LET c == Val(sd) % 100 IN
  IF c < 25 THEN [s |-> "input: " \o Pick(Nx(sd), <<"q/1", "p/0", "_p/2", "edge/10">>) \o ".", sd |-> Nx(Nx(sd))]
  ELSE IF c < 45 THEN [s |-> "output: " \o Pick(Nx(sd), <<"p/1", "r/0", "t/2">>) \o ".", sd |-> Nx(Nx(sd))]
  ELSE IF c < 70 THEN [s |-> "input: " \o Pick(Nx(sd), <<"n", "c", "_k", "n1">>) \o Pick(Mix(sd, 4), <<"", " -> integer", " -> i", " -> general", "->g", " -> symbol", " -> s">>) \o ".", sd |-> Nx(Nx(sd))]
  ELSE LAnnotated(Nx(sd))
FolSyntaxCase(n, sd) ==
  LET k == n % 4
      f1 == LForm(sd, Depth, 1)
      f2 == LForm(f1.sd, Depth, 1)
      a1 == LAnnotated(sd)
      a2 == LAnnotated(a1.sd)
      u1 == LUgEntry(sd)
      u2 == LUgEntry(u1.sd)
      u3 == LUgEntry(u2.sd)
  IN IF k < 2 THEN [id |-> "fs" \o ToString(n), as |-> "theory", text |-> IF k = 0 THEN f1.s \o "." ELSE f1.s \o ". " \o f2.s \o "."]
     ELSE IF k = 2 THEN [id |-> "fs" \o ToString(n), as |-> "specification", text |-> a1.s \o " " \o a2.s]
     ELSE [id |-> "fs" \o ToString(n), as |-> "user-guide", text |-> u1.s \o " " \o u2.s \o " " \o u3.s]

\* ---------------------------------------------------------------- proof outlines (C13)
\* 1 - 4 entries named e1..e4 over lemmas, inductive lemmas and definitions with every direction annotation; each pool mixes
\* acceptable entries with entries that violate exactly one acceptance condition
ODir == <<"", "", "(forward)", "(backward)", "(universal)">>
OEntry(sd, K) ==
  LET c == Val(sd) % 100
      d == Pick(Nx(sd), ODir)
      nm == "[e" \o ToString(K) \o "]"
      dk == "d" \o ToString(K)
      dj == "d" \o ToString(1 + (Val(Mix(sd, 3)) % 4))
      lem == <<"forall X (p(X) -> q(X))", "forall X (p(X) -> X > 0)", "exists X q(X) -> exists Y (q(Y) and (p(Y) or Y <= 0))", "p(X) -> q(X)",
               "forall X (" \o dj \o "(X) -> q(X))", "forall X (q(X) and X > 1 -> " \o dj \o "(X))", "forall X Y (p(X) and p(Y) and X < Y -> q(Y))", "not p(0)">>
      ind == <<"forall N$i (N$i >= 0 -> (q(N$i) -> p(N$i) or N$i = 0))", "forall N$i (N$i >= -1 -> (p(N$i) -> q(N$i)))",
               "forall X N$i (N$i >= 1 -> (q(X) and X = N$i -> p(N$i)))", "forall N$i (N$i >= 0 -> (exists N$i q(N$i)) or p(N$i) or not q(N$i))",
               "N$i >= 0 -> (q(N$i) -> p(N$i) or N$i < 1)", "forall N$i (N$i >= 2 -> (p(N$i) -> " \o dj \o "(N$i) or q(N$i)))",
               "forall N$i (N$i >= 0 -> forall X (X = N$i + 1 and q(X) -> p(X)))", "forall N$i M$i (N$i >= 0 -> (q(N$i + M$i) and N$i + M$i > 0 -> p(N$i + M$i)))",
               \* malformed
               "forall N$i (N$i > 0 -> (q(N$i) -> p(N$i)))", "forall N$i M$i (N$i >= M$i -> (q(N$i) -> p(N$i)))", "forall N$i X (N$i >= 0 -> (q(N$i) -> p(N$i)))",
               "forall X (X >= 0 -> (q(X) -> p(X)))", "forall N$i (0 <= N$i -> (q(N$i) -> p(N$i)))", "forall N$i (N$i >= 0 -> q(1))",
               "forall N$i (0 <= N$i >= 0 -> p(N$i))", "forall N$i (N$i >= 0 and q(N$i) -> p(N$i))">>
      def == <<"forall X (" \o dk \o "(X) <-> q(X) and X > 1)", "forall X (" \o dk \o "(X) <-> " \o dj \o "(X) or p(X))", "forall X Y (" \o dk \o "(X, Y) <-> q(X) and p(Y))",
               "forall X$i (" \o dk \o "(X$i) <-> q(X$i + 1))", "forall X (" \o dk \o "(X) <-> exists Y (q(Y) and Y < X))",
               \* unacceptable
               "forall X (p(X) <-> q(X))", "forall X X (" \o dk \o "(X, X) <-> q(X))", "forall X (" \o dk \o "(X, 1) <-> q(X))", "forall X Y (" \o dk \o "(X) <-> q(X))",
               "forall X (" \o dk \o "(X) <-> q(X) and q(Y))", dk \o " <-> q(1)", "forall X (" \o dk \o "(X) -> q(X))", "forall X (" \o dk \o "(X) <-> not " \o dk \o "(X))",
               "forall X (" \o dk \o "(X) <-> undefined_pred(X))", "forall X (q(X) <-> " \o dk \o "(X))", "forall X (" \o dk \o "(X$i) <-> q(X))",
               "forall X (aux(X) <-> q(X))">>
  IN IF c < 36 THEN "lemma" \o d \o nm \o ": " \o Pick(Mix(sd, 1), lem) \o "."
     ELSE IF c < 62 THEN "inductive-lemma" \o d \o nm \o ": " \o Pick(Mix(sd, 1), ind) \o "."
     ELSE IF c < 96 THEN "definition" \o d \o nm \o ": " \o Pick(Mix(sd, 1), def) \o "."
     ELSE Pick(Mix(sd, 1), <<"spec", "assumption">>) \o d \o nm \o ": p(1)."
RECURSIVE OEntries(_, _, _)
OEntries(sd, k, n) == IF k > n THEN "" ELSE OEntry(sd, k) \o " " \o OEntries(Mix(sd, k), k + 1, n)
OutlineCase(n, sd) ==
  LET cnt == 1 + (Val(sd) % 4)
      base == n % 3
  IN [id |-> "po" \o ToString(n), task |-> "external",
      left |-> IF base = 2 THEN "aux(X) :- q(X), X > 0. p(X) :- aux(X)." ELSE "p(X) :- q(X), X > 0.",
      right |-> IF base = 0 THEN "p(X) :- q(X), 0 < X." ELSE "p(X) :- q(X), X >= 1.",
      ug |-> "input: q/1. output: p/1.", po |-> OEntries(Nx(sd), 1, cnt)]

\* ---------------------------------------------------------------- reference grammar (Syntax.tla): minimally parenthesised text + the tree it means
PrecAspCase(n) ==
  LET idx == (Seed0 * 61 + n * Stride) % (2 * NAspTerms)
      t == AspTerm(idx \div 2)
      sp == IF idx % 2 = 0 THEN " " ELSE ""
  IN [id |-> "pa" \o ToString(idx), prog |-> "p(" \o TText(t, 1, sp) \o ") :- q(X), q(Y).", exp |-> t]
PrecRuleCase(n) ==
  LET idx == (Seed0 * 71 + n * Stride) % NAspRules
      r == AspRule(idx)
  IN [id |-> "pr" \o ToString(idx), prog |-> r.text, exprule |-> [head |-> r.head, body |-> r.body]]
PrecEntryCase(n) ==
  LET idx == n % (NSpecEntries + NUgEntries)
      isSpec == idx < NSpecEntries
      e == IF isSpec THEN SpecEntry(idx) ELSE UgEntry(idx - NSpecEntries)
  IN [id |-> "pe" \o ToString(idx), as |-> IF isSpec THEN "specification" ELSE "user-guide", text |-> e.text, exp |-> <<e.tree>>]
PrecFolCase(n) ==
  LET idx == (Seed0 * 67 + n * Stride) % (NFolForms + NFolCmps)
      f == IF idx < NFolForms THEN FolForm(idx) ELSE FolCmp(idx - NFolForms)
  IN [id |-> "pf" \o ToString(idx), f |-> FText(f, 1), exp |-> f]

Case(n, sd) ==
  CASE Mode = "program" -> ProgramCase(n, sd)
    [] Mode = "precasp" -> PrecAspCase(n)
    [] Mode = "precfol" -> PrecFolCase(n)
    [] Mode = "precrule" -> PrecRuleCase(n)
    [] Mode = "precentry" -> PrecEntryCase(n)
    [] Mode = "outline" -> OutlineCase(n, sd)
    [] Mode = "aspsyntax" -> AspSyntaxCase(n, sd)
    [] Mode = "folsyntax" -> FolSyntaxCase(n, sd)
    [] Mode = "ident" -> IdentCase(n, sd)
    [] Mode = "extbad" -> BadCase(n, sd)
    [] Mode = "absprog" -> AbsCase(n)
    [] Mode = "cycle" -> CycleCase(n, sd)
    [] Mode = "ext" -> ExtCase(n, sd)
    [] Mode = "pair" -> PairCase(n, sd)
    [] Mode = "theory" -> TheoryCase(n, sd)
    [] Mode = "sysrule" -> SysCase(n)
    [] Mode = "sysnest" -> NestCase(n)
    [] Mode = "sysnames" -> NameCase(n)
    [] Mode = "formula" -> FormulaCase(n, sd)
    [] Mode = "subst" -> SubstCase(n, sd)
    [] Mode = "redex" -> RedexCase(n, sd)

VARIABLES n, sd
Init == n = 0 /\ sd = Start
Next == /\ n < Count
        /\ PrintT(ToJson(Case(n, sd)))
        /\ n' = n + 1
        /\ sd' = Mix(sd, n)
Spec == Init /\ [][Next]_<<n, sd>>
=============================================================================
