SPECIFICATION Spec
CONSTANTS
 Configs <- MCConfigs
 Outcomes <- MCOutcomes
 MaxN = 3
INVARIANTS TypeOK AtMostN ExactlyOnce NeverTwice ReportedAll VerdictIffAllTheorem FlagExact AnnouncedInOrder PoolAnnouncesFirst
PROPERTIES FlagMonotone Termination
CHECK_DEADLOCK FALSE
