SPECIFICATION PSpec
CONSTANTS
 Configs <- PGConfigsSmall
 Outcomes <- PGOutcomes
 MaxN = 3
INVARIANT Emit
CHECK_DEADLOCK FALSE
