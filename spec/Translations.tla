---------------------------- MODULE Translations ----------------------------
(***************************************************************************)
(* The REFERENCE TRANSLATION tau* of the specification: what anthem's      *)
(* `translate --with tau-star` computes, written as a function from the    *)
(* rule trees of Appendix A to the formula trees of Appendix A             *)
(* (translating/formula_representation/tau_star.rs; Fandinno, Lifschitz,   *)
(* Luehne, Schaub: "Verifying tight logic programs with anthem and         *)
(* vampire", corrected arXiv version for division).                        *)
(*                                                                         *)
(*   val_t(Z)   t a numeral, symbol, #inf, #sup, variable:   Z = t         *)
(*              -t:          exists I J (Z = I - J & val_0(I) & val_t(J))  *)
(*              t1 op t2 for op one of plus, minus, times:                  *)
(*                           exists I J (Z = I op J & val_t1(I) & val_t2(J))*)
(*              t1 / t2:     exists I J Q R (I = J*Q + R & val_t1(I) &     *)
(*                             val_t2(J) & J != 0 & R >= 0 & R < J & Z = Q)*)
(*              t1 \ t2:     the same with Z = R                           *)
(*              t1 .. t2:    exists I J K (val_t1(I) & val_t2(J) &         *)
(*                             I <= K <= J & Z = K)                         *)
(*   tau_B      sign p(t1..tn):  exists Z1..Zn (val_t1(Z1) & .. & sign p(Z))*)
(*              t1 rel t2:       exists Z1 Z2 (val_t1(Z1) & val_t2(Z2) &   *)
(*                                 Z1 rel Z2)                              *)
(*   rules      p(t) :- B:    forall V X (val_t(V) & tau_B(B) -> p(V))      *)
(*              {p(t)} :- B:  forall V X (val_t(V) & tau_B(B) & not not p(V)*)
(*                              -> p(V))                                   *)
(*              :- B:         forall X (tau_B(B) -> #false)                *)
(*                                                                         *)
(* Fresh variables are W1, W2, ... (a counter threaded through the         *)
(* construction; the generators never use names of that shape).  The       *)
(* design check (TraceSem, VERIF_PROP=SELF) grounds RefTau(rule) and       *)
(* compares it with the rule semantics of MiniGringo.tla for every HT      *)
(* interpretation - the reference translation and the reference semantics  *)
(* are two independent formulations and must agree; anthem's own output is *)
(* compared with both.                                                     *)
(***************************************************************************)
EXTENDS Analysis, Integers, Sequences, TLC

W(k) == "W" \o ToString(k)
RECURSIVE SetToSeqOrd(_)
SetToSeqOrd(S) == IF S = {} THEN <<>> ELSE LET m == CHOOSE x \in S : \A y \in S : x <= y IN <<m>> \o SetToSeqOrd(S \ {m})
GVar(n) == [k |-> "var", v |-> n, s |-> "g"]
IVar(n) == [k |-> "var", v |-> n, s |-> "i"]
QV(n, s) == [n |-> n, s |-> s]
Cmp1(t, r, u) == [k |-> "cmp", t |-> t, g |-> <<[r |-> r, t |-> u]>>]
And2(a, b) == [k |-> "and", l |-> a, r |-> b]
RECURSIVE ConjAll(_)
ConjAll(fs) == IF fs = <<>> THEN [k |-> "true"] ELSE IF Len(fs) = 1 THEN fs[1] ELSE And2(ConjAll(SubSeq(fs, 1, Len(fs) - 1)), fs[Len(fs)])
Ex(vars, f) == [k |-> "exists", vars |-> vars, f |-> f]
Num(n) == [k |-> "num", n |-> n]
\* a term of the program that is its own value: as a general term of sigma_0
Leaf(t) == IF t.k = "var" THEN GVar(t.v) ELSE t
IsLeaf(t) == t.k \in {"num", "sym", "inf", "sup", "var"}
IOp(k) == k \in {"add", "sub", "mul"}

\* val_t(z): z a term of sigma_0 (a variable); returns [f |-> formula, k |-> next fresh index]
RECURSIVE Val(_, _, _)
Val(t, z, k) ==
  IF IsLeaf(t) THEN [f |-> Cmp1(z, "eq", Leaf(t)), k |-> k]
  ELSE IF t.k = "neg"
       THEN LET i == IVar(W(k)) j == IVar(W(k + 1))
                a == Val(Num(0), i, k + 2)
                b == Val(t.a, j, a.k)
            IN [f |-> Ex(<<QV(W(k), "i"), QV(W(k + 1), "i")>>, And2(And2(Cmp1(z, "eq", [k |-> "sub", l |-> i, r |-> j]), a.f), b.f)), k |-> b.k]
  ELSE IF IOp(t.k)
       THEN LET i == IVar(W(k)) j == IVar(W(k + 1))
                a == Val(t.l, i, k + 2)
                b == Val(t.r, j, a.k)
            IN [f |-> Ex(<<QV(W(k), "i"), QV(W(k + 1), "i")>>, And2(And2(Cmp1(z, "eq", [k |-> t.k, l |-> i, r |-> j]), a.f), b.f)), k |-> b.k]
  ELSE IF t.k \in {"div", "mod"}
       THEN LET i == IVar(W(k)) j == IVar(W(k + 1)) q == IVar(W(k + 2)) r == IVar(W(k + 3))
                a == Val(t.l, i, k + 4)
                b == Val(t.r, j, a.k)
                eqn == Cmp1(i, "eq", [k |-> "add", l |-> [k |-> "mul", l |-> j, r |-> q], r |-> r])
                cond == And2(And2(Cmp1(j, "ne", Num(0)), Cmp1(r, "ge", Num(0))), Cmp1(r, "lt", j))
            IN [f |-> Ex(<<QV(W(k), "i"), QV(W(k + 1), "i"), QV(W(k + 2), "i"), QV(W(k + 3), "i")>>,
                         And2(And2(And2(eqn, And2(a.f, b.f)), cond), Cmp1(z, "eq", IF t.k = "div" THEN q ELSE r))), k |-> b.k]
  ELSE \* interval
       LET i == IVar(W(k)) j == IVar(W(k + 1)) kk == IVar(W(k + 2))
           a == Val(t.l, i, k + 3)
           b == Val(t.r, j, a.k)
           between == [k |-> "cmp", t |-> i, g |-> <<[r |-> "le", t |-> kk], [r |-> "le", t |-> j]>>]
       IN [f |-> Ex(<<QV(W(k), "i"), QV(W(k + 1), "i"), QV(W(k + 2), "i")>>, And2(And2(And2(a.f, b.f), between), Cmp1(z, "eq", kk))), k |-> b.k]

\* val_t1(z1) & ... & val_tn(zn) as a sequence of conjuncts
RECURSIVE Vals(_, _, _)
Vals(ts, zs, k) == IF ts = <<>> THEN [fs |-> <<>>, k |-> k]
                   ELSE LET a == Val(Head(ts), Head(zs), k)
                            rest == Vals(Tail(ts), Tail(zs), a.k)
                        IN [fs |-> <<a.f>> \o rest.fs, k |-> rest.k]
Signed(sign, f) == IF sign = 0 THEN f ELSE IF sign = 1 THEN [k |-> "not", f |-> f] ELSE [k |-> "not", f |-> [k |-> "not", f |-> f]]
FAtom(p, args) == [k |-> "atom", p |-> p, args |-> args]

TauB(b, k) ==
  IF b.k = "lit"
  THEN LET n == Len(b.a.args) IN
       IF n = 0 THEN [f |-> Signed(b.sign, FAtom(b.a.p, <<>>)), k |-> k]
       ELSE LET zs == [j \in 1..n |-> GVar(W(k + j - 1))]
                vs == Vals(b.a.args, zs, k + n)
            IN [f |-> Ex([j \in 1..n |-> QV(W(k + j - 1), "g")], And2(ConjAll(vs.fs), Signed(b.sign, FAtom(b.a.p, zs)))), k |-> vs.k]
  ELSE LET z1 == GVar(W(k)) z2 == GVar(W(k + 1))
           a == Val(b.l, z1, k + 2)
           c == Val(b.rt, z2, a.k)
       IN [f |-> Ex(<<QV(W(k), "g"), QV(W(k + 1), "g")>>, And2(And2(a.f, c.f), Cmp1(z1, b.r, z2))), k |-> c.k]
RECURSIVE TauBody(_, _)
TauBody(bs, k) == IF bs = <<>> THEN [fs |-> <<>>, k |-> k]
                  ELSE LET a == TauB(Head(bs), k)
                           rest == TauBody(Tail(bs), a.k)
                       IN [fs |-> <<a.f>> \o rest.fs, k |-> rest.k]

\* the rule's own variables are general variables of the closure
RefTau(r) ==
  LET xs == [j \in DOMAIN r.vars |-> QV(r.vars[j], "g")]
      Close(vars, f) == IF vars = <<>> THEN f ELSE [k |-> "forall", vars |-> vars, f |-> f]
  IN IF r.head.k = "falsity"
     THEN LET b == TauBody(r.body, 1) IN Close(xs, [k |-> "imp", l |-> ConjAll(b.fs), r |-> [k |-> "false"]])
     ELSE LET n == Len(r.head.a.args)
              vs == [j \in 1..n |-> GVar(W(j))]
              hv == Vals(r.head.a.args, vs, n + 1)
              b == TauBody(r.body, hv.k)
              hd == FAtom(r.head.a.p, vs)
              extra == IF r.head.k = "choice" THEN <<[k |-> "not", f |-> [k |-> "not", f |-> hd]]>> ELSE <<>>
          IN Close([j \in 1..n |-> QV(W(j), "g")] \o xs, [k |-> "imp", l |-> ConjAll(hv.fs \o b.fs \o extra), r |-> hd])

\* ---------------------------------------------------------------- the natural translation of a REGULAR rule (natural.rs)
\* Terms of the first kind are translated as they stand; a variable is of sort integer iff it occurs somewhere in the rule below an
\* operation, or on the left of a comparison  t = t2..t3.  An interval in the head becomes a fresh integer variable N with
\* t1 <= N <= t2 in front of the head;  t = t2..t3  in the body becomes  t2 <= t <= t3;  {A} becomes  A or not A.
RECURSIVE AllVarsT(_)
AllVarsT(t) == CASE t.k = "var" -> {t.v} [] t.k \in {"num", "sym", "inf", "sup"} -> {} [] t.k = "neg" -> AllVarsT(t.a) [] OTHER -> AllVarsT(t.l) \cup AllVarsT(t.r)
UnderOp(t) == IF IsLeaf(t) THEN {} ELSE AllVarsT(t)
RuleTerms(r) == (IF r.head.k = "falsity" THEN {} ELSE {r.head.a.args[i] : i \in DOMAIN r.head.a.args})
                \cup UNION {IF r.body[i].k = "lit" THEN {r.body[i].a.args[j] : j \in DOMAIN r.body[i].a.args} ELSE {r.body[i].l, r.body[i].rt} : i \in DOMAIN r.body}
IntVarsOf(r) == UNION {UnderOp(t) : t \in RuleTerms(r)}
                \cup UNION {IF r.body[i].k = "cmp" /\ r.body[i].r = "eq" /\ SecondKind(r.body[i].rt) THEN AllVarsT(r.body[i].l) ELSE {} : i \in DOMAIN r.body}
RECURSIVE P2FI(_)
P2FI(t) == CASE t.k = "var" -> IVar(t.v) [] t.k = "num" -> t [] t.k = "neg" -> [k |-> "neg", a |-> P2FI(t.a)] [] OTHER -> [k |-> t.k, l |-> P2FI(t.l), r |-> P2FI(t.r)]
P2F(t, iv) == IF t.k = "var" THEN (IF t.v \in iv THEN IVar(t.v) ELSE GVar(t.v)) ELSE IF IsLeaf(t) THEN t ELSE P2FI(t)
NatBody(b, iv) ==
  IF b.k = "lit" THEN Signed(b.sign, FAtom(b.a.p, [j \in DOMAIN b.a.args |-> P2F(b.a.args[j], iv)]))
  ELSE IF b.r = "eq" /\ SecondKind(b.rt)
       THEN [k |-> "cmp", t |-> P2F(b.rt.l, iv), g |-> <<[r |-> "le", t |-> P2F(b.l, iv)], [r |-> "le", t |-> P2F(b.rt.r, iv)]>>]
       ELSE Cmp1(P2F(b.l, iv), b.r, P2F(b.rt, iv))
RefNatural(r) ==
  LET iv == IntVarsOf(r)
      body == ConjAll([i \in DOMAIN r.body |-> NatBody(r.body[i], iv)])
      head == IF r.head.k = "falsity" THEN [k |-> "false"]
              ELSE LET args == r.head.a.args
                       ivl == {j \in DOMAIN args : SecondKind(args[j])}
                       hargs == [j \in DOMAIN args |-> IF j \in ivl THEN IVar(W(j)) ELSE P2F(args[j], iv)]
                       atom == FAtom(r.head.a.p, hargs)
                       concl == IF r.head.k = "choice" THEN [k |-> "or", l |-> atom, r |-> [k |-> "not", f |-> atom]] ELSE atom
                       js == SetToSeqOrd(ivl)
                       conds == ConjAll([x \in DOMAIN js |-> [k |-> "cmp", t |-> P2F(args[js[x]].l, iv),
                                                               g |-> <<[r |-> "le", t |-> IVar(W(js[x]))], [r |-> "le", t |-> P2F(args[js[x]].r, iv)]>>]])
                   IN IF ivl = {} THEN concl
                      ELSE [k |-> "forall", vars |-> [x \in DOMAIN js |-> QV(W(js[x]), "i")], f |-> [k |-> "imp", l |-> conds, r |-> concl]]
      xs == [j \in DOMAIN r.vars |-> QV(r.vars[j], IF r.vars[j] \in iv THEN "i" ELSE "g")]
      imp == [k |-> "imp", l |-> body, r |-> head]
  IN IF xs = <<>> THEN imp ELSE [k |-> "forall", vars |-> xs, f |-> imp]

\* ---------------------------------------------------------------- gamma (translating/classical_reduction/gamma.rs)
\* gamma(p(t)) = hp(t);  gamma(not F) = not F^t;  gamma(F op G) = gamma(F) op gamma(G) for and / or;
\* gamma(F => G) = (gamma(F) => gamma(G)) and (F^t => G^t) for the three arrows;  quantifiers are kept
RECURSIVE Copy(_, _), RefGamma(_)
Copy(f, pfx) ==
  CASE f.k = "atom" -> [f EXCEPT !.p = pfx \o f.p]
    [] f.k \in {"true", "false", "cmp"} -> f
    [] f.k = "not" -> [f EXCEPT !.f = Copy(f.f, pfx)]
    [] f.k \in {"forall", "exists"} -> [f EXCEPT !.f = Copy(f.f, pfx)]
    [] OTHER -> [f EXCEPT !.l = Copy(f.l, pfx), !.r = Copy(f.r, pfx)]
RefGamma(f) ==
  CASE f.k \in {"atom", "true", "false", "cmp"} -> Copy(f, "h")
    [] f.k = "not" -> [k |-> "not", f |-> Copy(f.f, "t")]
    [] f.k \in {"and", "or"} -> [k |-> f.k, l |-> RefGamma(f.l), r |-> RefGamma(f.r)]
    [] f.k \in {"imp", "rimp", "iff"} -> [k |-> "and", l |-> [k |-> f.k, l |-> RefGamma(f.l), r |-> RefGamma(f.r)],
                                                       r |-> [k |-> f.k, l |-> Copy(f.l, "t"), r |-> Copy(f.r, "t")]]
    [] OTHER -> [f EXCEPT !.f = RefGamma(f.f)]
=============================================================================
