------------------------------ MODULE TraceCli ------------------------------
(***************************************************************************)
(* Trace specification for C16 (and the determinism half of C18).  One     *)
(* ndjson line per input text: the runs of every applicable command on it. *)
(* A run is accepted iff its outcome is an outcome of Cli.tla (exit status *)
(* 0, 1 or 2; a diagnostic whenever the status is not 0; no panic, no      *)
(* signal, no timeout); the line is accepted iff moreover                  *)
(*  - a text that `parse` accepts makes no later stage end with a usage    *)
(*    error, and                                                           *)
(*  - runs with equal command line and input have byte-identical output    *)
(*    (history of the CLI model: output is a function of the input).       *)
(***************************************************************************)
EXTENDS Cli, Json, IOUtils
Rec == ndJsonDeserialize(IOEnv.VERIF_TRACE)
VARIABLE st
RunOk(x) == /\ ~x.panicked /\ ~x.signalled /\ ~x.timeout
            /\ [code |-> x.code, diag |-> x.diag] \in Outcomes
Why(x) == IF x.timeout THEN "did not terminate within the time limit"
          ELSE IF x.panicked THEN "panicked"
          ELSE IF x.signalled THEN "killed by a signal"
          ELSE IF x.code \notin {0, 1, 2} THEN "exit status " \o ToString(x.code)
          ELSE IF x.code # 0 /\ ~x.diag THEN "non-zero exit status without a diagnostic"
          ELSE ""
ParseAccepted(r) == \E k \in DOMAIN r.runs : r.runs[k].isparse /\ r.runs[k].code = 0
LaterOk(r) == ParseAccepted(r) => \A k \in DOMAIN r.runs : r.runs[k].code # 2
Deterministic(r) == \A k, m \in DOMAIN r.runs : r.runs[k].cmd = r.runs[m].cmd => r.runs[k].outhash = r.runs[m].outhash /\ r.runs[k].code = r.runs[m].code
Verdict(r) == [id |-> r.id,
               bad |-> [k \in {m \in DOMAIN r.runs : ~RunOk(r.runs[m])} |-> [cmd |-> r.runs[k].cmd, why |-> Why(r.runs[k])]],
               later |-> LaterOk(r), deterministic |-> Deterministic(r)]
TInit == st = 0 /\ CInit
TNext == \E i \in DOMAIN Rec : st = 0 /\ st' = i /\ PrintT(ToJson(Verdict(Rec[i]))) /\ UNCHANGED cvars
TSpec == TInit /\ [][TNext]_<<st, cvars>>
=============================================================================
