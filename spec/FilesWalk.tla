------------------------------ MODULE FilesWalk ------------------------------
(* The loop of Files::sort as a state machine: one action per visited entry.  *)
EXTENDS Files
\* ---------------------------------------------------------------- operational: the loop of Files::sort
VARIABLES layout,   \* the arguments (chosen initially)
          todo,     \* pending entries, each [item, prefix]; the head is visited next
          buckets,  \* extension -> sequence of paths pushed so far
          failed    \* a walkdir error was hit
fvars == <<layout, todo, buckets, failed>>
Exts == {"lp", "spec", "ug", "po"}
InitWalk(l) == /\ layout = l
               /\ todo = [j \in DOMAIN l |-> [item |-> l[j], prefix |-> <<>>]]
               /\ buckets = [e \in Exts \cup {"other"} |-> <<>>]
               /\ failed = FALSE
VisitFile == /\ ~failed /\ todo # <<>> /\ Head(todo).item.k = "f"
             /\ LET p == Append(Head(todo).prefix, Head(todo).item.n)
                    e == IF ExtOf(p) \in Exts THEN ExtOf(p) ELSE "other"
                IN buckets' = [buckets EXCEPT ![e] = Append(@, p)]
             /\ todo' = Tail(todo) /\ UNCHANGED <<layout, failed>>
EnterDir == /\ ~failed /\ todo # <<>> /\ Head(todo).item.k = "d"
            /\ LET d == Head(todo)
                   sorted == SortSeq(d.item.es, LAMBDA x, y : x.n < y.n)
               IN todo' = [j \in DOMAIN sorted |-> [item |-> sorted[j], prefix |-> Append(d.prefix, d.item.n)]] \o Tail(todo)
            /\ UNCHANGED <<layout, buckets, failed>>
HitMissing == /\ ~failed /\ todo # <<>> /\ Head(todo).item.k = "x"
              /\ failed' = TRUE /\ UNCHANGED <<layout, todo, buckets>>
WalkNext == VisitFile \/ EnterDir \/ HitMissing
WalkDone == failed \/ todo = <<>>
\* the loop computes the declarative buckets (a walkdir error aborts the whole command)
WalkAgrees == WalkDone /\ ~failed => /\ ~WalkFails(layout)
                                      /\ \A e \in Exts : buckets[e] = Bucket(layout, e)
FailAgrees == failed => WalkFails(layout)

=============================================================================
