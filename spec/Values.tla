------------------------------- MODULE Values -------------------------------
(***************************************************************************)
(* The standard domain of anthem's target language and of mini-gringo:     *)
(*     #inf  <  integers  <  symbolic constants (byte-lexicographic) < #sup *)
(* encoded as triples <<tag, lo, hi>> so that the total order is arithmetic.*)
(*   tag 0  #inf      tag 1  integer     tag 2  symbol      tag 3  #sup     *)
(* An integer triple with lo < hi is an ABSTRACT value: "some integer in    *)
(* lo..hi" (INF / -INF are sentinels for unbounded).  Symbol rank 0 is the  *)
(* abstract value "some symbolic constant other than the named ones".       *)
(* Everything here is three-valued (T / F / U) and SOUND for the infinite   *)
(* domain: T (F) is only returned when the fact holds (fails) for every     *)
(* concretisation of the abstract values involved.                          *)
(***************************************************************************)
EXTENDS Integers, Sequences, FiniteSets, TLC

INF == 1000000          \* sentinel; |concrete integers| stay far below (TLC ints are 32 bit)
BIG == 30000            \* operands beyond this are widened before multiplying

Clamp(x) == IF x >= INF THEN INF ELSE IF x <= -INF THEN -INF ELSE x
CInt(n) == <<1, n, n>>
VInf == <<0, 0, 0>>
VSup == <<3, 0, 0>>
VSym(r) == <<2, r, r>>
VOther == <<2, 0, 0>>
TopInt == <<1, -INF, INF>>
IsInt(v) == v[1] = 1
IsSym(v) == v[1] = 2
IsConc(v) == (v[1] \in {0, 3}) \/ (v[1] = 1 /\ v[2] = v[3]) \/ (v[1] = 2 /\ v[2] > 0)

\* ---------------------------------------------------------------- Kleene logic
And3(a, b) == IF a = "F" \/ b = "F" THEN "F" ELSE IF a = "T" /\ b = "T" THEN "T" ELSE "U"
Or3(a, b) == IF a = "T" \/ b = "T" THEN "T" ELSE IF a = "F" /\ b = "F" THEN "F" ELSE "U"
Not3(a) == IF a = "T" THEN "F" ELSE IF a = "F" THEN "T" ELSE "U"
Imp3(a, b) == Or3(Not3(a), b)
Iff3(a, b) == And3(Imp3(a, b), Imp3(b, a))

\* ---------------------------------------------------------------- the total order
Lt3(a, b) == IF a[1] # b[1] THEN (IF a[1] < b[1] THEN "T" ELSE "F")
             ELSE IF a[1] \in {0, 3} THEN "F"
             ELSE IF a[1] = 2 THEN (IF a[2] = 0 \/ b[2] = 0 THEN "U" ELSE IF a[2] < b[2] THEN "T" ELSE "F")
             ELSE IF a[3] < b[2] THEN "T" ELSE IF a[2] >= b[3] THEN "F" ELSE "U"
Eq3(a, b) == IF a[1] # b[1] THEN "F"
             ELSE IF a[1] \in {0, 3} THEN "T"
             ELSE IF a[1] = 2 THEN (IF a[2] = 0 /\ b[2] = 0 THEN "U" ELSE IF a[2] = b[2] THEN "T" ELSE "F")
             ELSE IF a[2] = a[3] /\ b[2] = b[3] /\ a[2] = b[2] THEN "T"
             ELSE IF a[3] < b[2] \/ b[3] < a[2] THEN "F" ELSE "U"
Rel3(r, a, b) == CASE r = "eq" -> Eq3(a, b)
                   [] r = "ne" -> Not3(Eq3(a, b))
                   [] r = "lt" -> Lt3(a, b)
                   [] r = "gt" -> Lt3(b, a)
                   [] r = "le" -> Not3(Lt3(b, a))
                   [] r = "ge" -> Not3(Lt3(a, b))

\* ---------------------------------------------------------------- interval arithmetic (extended reals, 0 * inf = 0)
IsUnb(x) == x = INF \/ x = -INF
MulE(x, y) == IF x = 0 \/ y = 0 THEN 0
              ELSE IF IsUnb(x) \/ IsUnb(y) THEN (IF (x > 0) = (y > 0) THEN INF ELSE -INF)
              ELSE IF x > BIG \/ x < -BIG \/ y > BIG \/ y < -BIG
                   THEN (IF (x > 0) = (y > 0) THEN INF ELSE -INF)   \* widening instead of overflow
                   ELSE Clamp(x * y)
AddE(x, y) == IF x = INF \/ y = INF THEN INF ELSE IF x = -INF \/ y = -INF THEN -INF ELSE Clamp(x + y)
Min2(a, b) == IF a < b THEN a ELSE b
Max2(a, b) == IF a > b THEN a ELSE b
Min4(a, b, c, d) == Min2(Min2(a, b), Min2(c, d))
Max4(a, b, c, d) == Max2(Max2(a, b), Max2(c, d))
\* an interval that was widened to a sentinel on one side only is still sound; a concrete
\* result that reached the sentinel is no longer concrete
Norm(v) == IF v[1] = 1 /\ v[2] = v[3] /\ IsUnb(v[2]) THEN TopInt ELSE v
NegI(a) == <<1, -a[3], -a[2]>>
AddI(a, b) == Norm(<<1, AddE(a[2], b[2]), AddE(a[3], b[3])>>)
SubI(a, b) == AddI(a, NegI(b))
MulI(a, b) == LET p1 == MulE(a[2], b[2]) p2 == MulE(a[2], b[3]) p3 == MulE(a[3], b[2]) p4 == MulE(a[3], b[3])
              IN Norm(<<1, Min4(p1, p2, p3, p4), Max4(p1, p2, p3, p4)>>)

\* floor division and non-negative remainder for a positive divisor (documented semantics D1)
FloorDiv(x, y) == x \div y      \* TLA+ \div is floor division for y > 0
FloorMod(x, y) == x % y         \* TLA+ % is non-negative for y > 0
=============================================================================
