----------------------------- MODULE TraceFiles -----------------------------
(***************************************************************************)
(* Trace specification for C20: each ndjson line is what the real binary   *)
(* did for one layout and one equivalence mode - which input file's marker *)
(* showed up among the axioms / conjectures of the forward problems (or    *)
(* that anthem reported an error) - and, when the layout has exactly two   *)
(* program arguments, the same for the layout with those two swapped.      *)
(* The line is accepted iff the observed roles are the ones Files.tla      *)
(* assigns, and the swapped run exchanged exactly the two directions.      *)
(***************************************************************************)
EXTENDS Files, Json, IOUtils
Rec == ndJsonDeserialize(IOEnv.VERIF_TRACE)
VARIABLE st
\* r.broken: the paths of files whose content does not parse.  Content never changes a role: the run fails iff such a file has a
\* role that is read (left / right, specification / program)
Roles0(r) == IF r.mode = "strong" THEN StrongRoles(r.layout) ELSE ExternalRoles(r.layout)
Expected(r) == LET e == Roles0(r)
                   B == {r.broken[k] : k \in DOMAIN r.broken}
               IN IF e.error THEN e
                  ELSE IF r.mode = "strong" THEN (IF e.left \in B \/ e.right \in B THEN Err ELSE e)
                  ELSE (IF e.spec \in B \/ e.program \in B THEN Err ELSE e)
RolesOk(r) == r.obs = Expected(r)
\* forward of one order = backward of the other, as sets of (axioms, conjecture) obligations
\* (with a .spec file present the programs are not the two sides, so only the roles are compared)
SidesArePrograms(r) == r.mode = "strong" \/ Bucket(r.layout, "spec") = <<>>
SwapOk(r) == r.swapped => /\ SidesArePrograms(r) => r.sig.fwd = r.sigswap.bwd /\ r.sig.bwd = r.sigswap.fwd
                          /\ r.obsswap = (IF r.mode = "strong" THEN StrongRoles(r.swaplayout) ELSE ExternalRoles(r.swaplayout))
Verdict(r) == [id |-> r.id, mode |-> r.mode, roles |-> RolesOk(r), swap |-> SwapOk(r), expected |-> Expected(r)]
TInit == st = 0
TNext == \E i \in DOMAIN Rec : st = 0 /\ st' = i /\ PrintT(ToJson(Verdict(Rec[i])))
TSpec == TInit /\ [][TNext]_st
=============================================================================
