------------------------------ MODULE Decompose ------------------------------
(***************************************************************************)
(* Design-level statement of property C19 for the part of the pipeline     *)
(* that the flags --decomposition and --no-eq-break control                *)
(* (verifying/problem/mod.rs: decompose_independent, decompose_sequential; *)
(* breaking/fol/sigma_0/ht.rs).                                            *)
(*                                                                         *)
(* A task direction has axioms and a sequence of conclusions; a conclusion *)
(* is either opaque or an equivalence L <-> R under a common universal     *)
(* prefix, which equivalence breaking replaces by the two implications.    *)
(* Formulas are abstract: an interpretation is a truth assignment to the   *)
(* axioms and to the (sides of the) conclusions; for a universally         *)
(* quantified equivalence the two implications may fail on different       *)
(* instances, so an interpretation assigns a truth value to `L -> R` and   *)
(* to `L <- R` independently and the equivalence is true iff both are.     *)
(*                                                                         *)
(* independent: one problem per conclusion, axioms as given                *)
(* sequential:  problem k has the axioms and the conclusions before k as   *)
(*              axioms                                                     *)
(* A family is refuted by an interpretation iff some problem has all its   *)
(* axioms true and its conjecture false.  FamiliesEquivalent: the four     *)
(* families are refuted by exactly the same interpretations.               *)
(***************************************************************************)
EXTENDS Integers, Sequences, FiniteSets, TLC
CONSTANTS NAx, NConc
VARIABLES ax,      \* truth value of each axiom
          kind,    \* conclusion k is "plain" or "iff"
          fwd,     \* truth of conclusion k (plain) or of its left-to-right half
          bwd      \* truth of its right-to-left half (ignored for plain conclusions)
dvars == <<ax, kind, fwd, bwd>>
DInit == /\ ax \in [1..NAx -> BOOLEAN] /\ kind \in [1..NConc -> {"plain", "iff"}]
         /\ fwd \in [1..NConc -> BOOLEAN] /\ bwd \in [1..NConc -> BOOLEAN]
DNext == UNCHANGED dvars
DSpec == DInit /\ [][DNext]_dvars

AxTrue == \A i \in 1..NAx : ax[i]
Whole(k) == IF kind[k] = "iff" THEN fwd[k] /\ bwd[k] ELSE fwd[k]
\* the conjectures after optional equivalence breaking, in emission order, as truth values
Conjs(break) ==
  LET Piece(k) == IF break /\ kind[k] = "iff" THEN <<fwd[k], bwd[k]>> ELSE <<Whole(k)>>
      RECURSIVE Cat(_)
      Cat(k) == IF k > NConc THEN <<>> ELSE Piece(k) \o Cat(k + 1)
  IN Cat(1)
RefutedIndependent(break) == LET c == Conjs(break) IN \E k \in DOMAIN c : AxTrue /\ ~c[k]
RefutedSequential(break) == LET c == Conjs(break) IN \E k \in DOMAIN c : AxTrue /\ (\A m \in 1..(k - 1) : c[m]) /\ ~c[k]
FamiliesEquivalent == /\ RefutedIndependent(FALSE) = RefutedSequential(FALSE)
                      /\ RefutedIndependent(TRUE) = RefutedSequential(TRUE)
                      /\ RefutedIndependent(FALSE) = RefutedIndependent(TRUE)
=============================================================================
