//! avh: conformance harness. Replays generated cases into the real anthem library (built from
//! /repo's working tree with feature `verif`) and records what it produced as ndjson traces that the
//! TLA+ trace specifications validate.
//!
//! usage: avh <mode> <cases.ndjson> <trace.ndjson>
mod tree;

use anthem::{
    analyzing::tightness::Tightness as _,
    convenience::{apply::Apply as _, compose::Compose as _},
    syntax_tree::{asp::mini_gringo as asp, fol::sigma_0 as fol},
    translating::{
        classical_reduction::{completion::Completion as _, gamma::Gamma as _},
        formula_representation::{mu::Mu as _, natural::Natural as _, tau_star::TauStar as _},
    },
    verif,
};
use either::Either;
use indexmap::IndexSet;
use serde_json::{Value, json};
use std::{
    collections::BTreeSet,
    io::{BufRead, BufReader, BufWriter, Write},
    panic::{AssertUnwindSafe, catch_unwind},
};
use tree::Ranks;

fn guarded<T>(f: impl FnOnce() -> T) -> Result<T, String> {
    catch_unwind(AssertUnwindSafe(f)).map_err(|e| {
        if let Some(s) = e.downcast_ref::<&str>() {
            s.to_string()
        } else if let Some(s) = e.downcast_ref::<String>() {
            s.clone()
        } else {
            "panic".to_string()
        }
    })
}

fn s(v: &Value, k: &str) -> String {
    v.get(k).and_then(|x| x.as_str()).unwrap_or_else(|| panic!("harness: case lacks string field {k}: {v}")).to_string()
}

fn so(v: &Value, k: &str) -> Option<String> {
    v.get(k).and_then(|x| x.as_str()).map(|x| x.to_string())
}

fn b(v: &Value, k: &str) -> bool {
    v.get(k).and_then(|x| x.as_bool()).unwrap_or(false)
}

// ------------------------------------------------------------------ C01 / C08: translations of rules
fn mode_translate(case: &Value, out: &mut Vec<Value>) {
    let id = s(case, "id");
    let text = s(case, "prog");
    let program: asp::Program = match text.parse() {
        Ok(p) => p,
        Err(e) => {
            out.push(json!({"id":id,"kind":"reject","text":text,"error":format!("{e}")}));
            return;
        }
    };
    let mut syms = BTreeSet::new();
    tree::asp_program_syms(&program, &mut syms);
    let r = guarded(|| {
        let tau = program.clone().tau_star();
        let nat = program.clone().natural();
        let mu = program.clone().mu();
        (tau, nat, mu)
    });
    match r {
        Err(p) => out.push(json!({"id":id,"kind":"panic","text":text,"panic":p})),
        Ok((tau, nat, mu)) => {
            for f in tau.formulas.iter().chain(mu.formulas.iter()) {
                tree::fol_formula_syms(f, &mut syms);
            }
            if let Some(n) = &nat {
                for f in &n.formulas {
                    tree::fol_formula_syms(f, &mut syms);
                }
            }
            let rk = Ranks::from_set(&syms);
            // per-rule natural translation: natural() of the one-rule program (acceptance is per rule)
            for (i, rule) in program.rules.iter().enumerate() {
                let single = asp::Program { rules: vec![rule.clone()] };
                let nat_i = guarded(|| single.natural()).unwrap_or(None);
                let natf = match (&nat, &nat_i) {
                    (Some(n), _) => tree::formula(&n.formulas[i], &rk),
                    (None, Some(n)) => tree::formula(&n.formulas[0], &rk),
                    (None, None) => json!({"k":"none"}),
                };
                out.push(json!({
                    "id": format!("{id}.{i}"),
                    "kind": "rule",
                    "text": rule.to_string(),
                    "prog": text,
                    "nsyms": rk.0.len(),
                    "syms": rk.0,
                    "rule": tree::asp_rule(rule, &rk),
                    "tau": tree::formula(&tau.formulas[i], &rk),
                    "tau_text": tau.formulas[i].to_string(),
                    "mu": tree::formula(&mu.formulas[i], &rk),
                    "nat": natf,
                    "nat_all": nat.is_some(),
                }));
            }
        }
    }
}

// ------------------------------------------------------------------ C04: completion
fn mode_completion(case: &Value, out: &mut Vec<Value>) {
    let id = s(case, "id");
    if let Some(ttext) = so(case, "theory") {
        // part (b): completability of an arbitrary theory
        let theory: fol::Theory = match ttext.parse() {
            Ok(t) => t,
            Err(e) => {
                out.push(json!({"id":id,"kind":"reject","text":ttext,"error":format!("{e}")}));
                return;
            }
        };
        let mut syms = BTreeSet::new();
        for f in &theory.formulas {
            tree::fol_formula_syms(f, &mut syms);
        }
        let inputs: IndexSet<fol::Predicate> = case["inputs"].as_array().map(|a| a.iter().map(|p| p.as_str().unwrap().parse().unwrap()).collect()).unwrap_or_default();
        match guarded(|| theory.clone().completion(inputs.clone())) {
            Err(p) => out.push(json!({"id":id,"kind":"panic","text":ttext,"panic":p})),
            Ok(c) => {
                if let Some(c) = &c {
                    for f in &c.formulas {
                        tree::fol_formula_syms(f, &mut syms);
                    }
                }
                let rk = Ranks::from_set(&syms);
                out.push(json!({
                    "id": id, "kind": "completable", "text": ttext, "nsyms": rk.0.len(), "syms": rk.0,
                    "theory": tree::theory(&theory, &rk),
                    "preds": theory.predicates().iter().map(tree::predicate).collect::<Vec<_>>(),
                    "inputs": inputs.iter().map(tree::predicate).collect::<Vec<_>>(),
                    "completed": c.is_some(),
                    "completion": c.as_ref().map(|c| tree::theory(c, &rk)).unwrap_or(json!([])),
                    "completion_text": c.as_ref().map(|c| c.to_string()).unwrap_or_default(),
                }));
            }
        }
        return;
    }
    let text = s(case, "prog");
    let program: asp::Program = match text.parse() {
        Ok(p) => p,
        Err(e) => {
            out.push(json!({"id":id,"kind":"reject","text":text,"error":format!("{e}")}));
            return;
        }
    };
    let inputs: IndexSet<fol::Predicate> = case["inputs"].as_array().map(|a| a.iter().map(|p| p.as_str().unwrap().parse().unwrap()).collect()).unwrap_or_default();
    let mut syms = BTreeSet::new();
    tree::asp_program_syms(&program, &mut syms);
    let r = guarded(|| {
        let tight = program.is_tight();
        let tau = program.clone().tau_star();
        let comp = tau.clone().completion(inputs.clone());
        (tight, tau, comp)
    });
    match r {
        Err(p) => out.push(json!({"id":id,"kind":"panic","text":text,"panic":p})),
        Ok((tight, tau, comp)) => {
            if let Some(c) = &comp {
                for f in &c.formulas {
                    tree::fol_formula_syms(f, &mut syms);
                }
            }
            let rk = Ranks::from_set(&syms);
            let preds: Vec<Value> = program.predicates().iter().map(|p| json!({"p":p.symbol,"n":p.arity})).collect();
            let heads: Vec<Value> = program.head_predicates().iter().map(|p| json!({"p":p.symbol,"n":p.arity})).collect();
            out.push(json!({
                "id": id, "kind": "completion", "text": text, "nsyms": rk.0.len(), "syms": rk.0,
                "rules": tree::asp_program(&program, &rk),
                "preds": preds, "heads": heads,
                "inputs": inputs.iter().map(tree::predicate).collect::<Vec<_>>(),
                "tight": tight,
                "tau": tree::theory(&tau, &rk),
                "completed": comp.is_some(),
                "completion": comp.as_ref().map(|c| tree::theory(c, &rk)).unwrap_or(json!([])),
                "completion_text": comp.as_ref().map(|c| c.to_string()).unwrap_or_default(),
            }));
        }
    }
}

// ------------------------------------------------------------------ C05: gamma
fn mode_gamma(case: &Value, out: &mut Vec<Value>) {
    let id = s(case, "id");
    let text = s(case, "f");
    let f: fol::Formula = match text.parse() {
        Ok(p) => p,
        Err(e) => {
            out.push(json!({"id":id,"kind":"reject","text":text,"error":format!("{e}")}));
            return;
        }
    };
    match guarded(|| f.clone().gamma()) {
        Err(p) => out.push(json!({"id":id,"kind":"panic","text":text,"panic":p})),
        Ok(g) => {
            let mut syms = BTreeSet::new();
            tree::fol_formula_syms(&f, &mut syms);
            tree::fol_formula_syms(&g, &mut syms);
            let rk = Ranks::from_set(&syms);
            out.push(json!({
                "id": id, "kind": "gamma", "text": text, "nsyms": rk.0.len(), "syms": rk.0,
                "f": tree::formula(&f, &rk), "g": tree::formula(&g, &rk), "g_text": g.to_string(),
                "preds": f.predicates().iter().map(tree::predicate).collect::<Vec<_>>(),
                "gpreds": g.predicates().iter().map(tree::predicate).collect::<Vec<_>>(),
            }));
        }
    }
}

// ------------------------------------------------------------------ C17: substitution
fn mode_subst(case: &Value, out: &mut Vec<Value>) {
    let id = s(case, "id");
    let text = s(case, "f");
    let parsed: Result<(fol::Formula, fol::Variable, fol::GeneralTerm), String> = (|| {
        Ok((
            text.parse::<fol::Formula>().map_err(|e| format!("{e}"))?,
            s(case, "var").parse::<fol::Variable>().map_err(|e| format!("{e}"))?,
            s(case, "term").parse::<fol::GeneralTerm>().map_err(|e| format!("{e}"))?,
        ))
    })();
    let (f, var, term) = match parsed {
        Ok(x) => x,
        Err(e) => {
            out.push(json!({"id":id,"kind":"reject","text":text,"error":e}));
            return;
        }
    };
    // sort compatibility is a precondition of the property (anthem panics by design otherwise)
    let compatible = match var.sort {
        fol::Sort::General => true,
        fol::Sort::Integer => matches!(term, fol::GeneralTerm::IntegerTerm(_)),
        fol::Sort::Symbol => matches!(term, fol::GeneralTerm::SymbolicTerm(_)),
    };
    if !compatible {
        out.push(json!({"id":id,"kind":"skip","text":text,"why":"sort-incompatible term"}));
        return;
    }
    match guarded(|| f.clone().substitute(var.clone(), term.clone())) {
        Err(p) => out.push(json!({"id":id,"kind":"panic","text":format!("{text} [{var} := {term}]"),"panic":p})),
        Ok(g) => {
            let mut syms = BTreeSet::new();
            tree::fol_formula_syms(&f, &mut syms);
            tree::fol_formula_syms(&g, &mut syms);
            for x in term.symbols() {
                syms.insert(x);
            }
            let rk = Ranks::from_set(&syms);
            out.push(json!({
                "id": id, "kind": "subst", "text": format!("{text} [{var} := {term}]"), "nsyms": rk.0.len(), "syms": rk.0,
                "f": tree::formula(&f, &rk), "var": tree::variable(&var), "term": tree::gen_term(&term, &rk),
                "out": tree::formula(&g, &rk), "out_text": g.to_string(),
            }));
        }
    }
}

// ------------------------------------------------------------------ C07 / C18: simplification
fn hash_str(x: &str) -> String {
    // FNV-1a 64
    let mut h: u64 = 0xcbf29ce484222325;
    for b in x.as_bytes() {
        h ^= *b as u64;
        h = h.wrapping_mul(0x100000001b3);
    }
    format!("{h:016x}")
}

fn mode_simplify(case: &Value, out: &mut Vec<Value>) {
    let id = s(case, "id");
    let text = s(case, "f");
    let f: fol::Formula = match text.parse() {
        Ok(p) => p,
        Err(e) => {
            out.push(json!({"id":id,"kind":"reject","text":text,"error":format!("{e}")}));
            return;
        }
    };
    let only: Option<Vec<String>> = case.get("portfolios").and_then(|x| x.as_array()).map(|a| a.iter().map(|x| x.as_str().unwrap().to_string()).collect());
    let mut syms = BTreeSet::new();
    tree::fol_formula_syms(&f, &mut syms);
    let mut results: Vec<(String, String, Result<fol::Formula, String>, Vec<Value>)> = Vec::new();
    for pf in ["intuitionistic", "ht", "classic"] {
        if let Some(o) = &only {
            if !o.iter().any(|x| x == pf) {
                continue;
            }
        }
        for st in ["shallow", "recursive", "fixpoint"] {
            let mut passes: Vec<Value> = Vec::new();
            // the fixpoint loop is first driven pass by pass (C18): f_{k+1} = f_k.apply(portfolio), at most 64 passes;
            // the library's own loop is only entered when the driven loop converged (it would not return otherwise)
            let mut converged = true;
            let mut driven_result: Option<fol::Formula> = None;
            if st == "fixpoint" {
                let driven = guarded(|| {
                    let mut simp = verif::portfolio(pf).unwrap().into_iter().compose();
                    let mut cur = f.clone();
                    let mut seq = vec![json!({"h":hash_str(&format!("{cur:?}")),"size":format!("{cur}").len()})];
                    let mut done = false;
                    for _ in 0..64 {
                        let next = cur.clone().apply(&mut simp);
                        let same = next == cur;
                        cur = next;
                        if same {
                            done = true;
                            break;
                        }
                        seq.push(json!({"h":hash_str(&format!("{cur:?}")),"size":format!("{cur}").len()}));
                    }
                    (seq, cur, done)
                });
                match driven {
                    Ok((seq, cur, done)) => {
                        passes = seq;
                        converged = done;
                        driven_result = Some(cur);
                    }
                    Err(_) => converged = true, // a panic is reported through the library call below
                }
            }
            let r = if converged {
                guarded(|| {
                    let mut simp = verif::portfolio(pf).unwrap().into_iter().compose();
                    match st {
                        "shallow" => simp(f.clone()),
                        "recursive" => f.clone().apply(&mut simp),
                        _ => f.clone().apply_fixpoint(&mut simp),
                    }
                })
            } else {
                Err("fixpoint iteration did not converge within 64 passes".to_string())
            };
            if st == "fixpoint" {
                if let Some(cur) = driven_result {
                    let again = if converged {
                        guarded(|| {
                            let mut simp = verif::portfolio(pf).unwrap().into_iter().compose();
                            cur.clone().apply_fixpoint(&mut simp)
                        })
                        .map(|x| x == cur)
                        .unwrap_or(false)
                    } else {
                        false
                    };
                    passes.push(json!({"final": hash_str(&format!("{cur:?}")), "converged": converged,
                        "lib_equal": r.as_ref().map(|x| *x == cur).unwrap_or(false), "idempotent": again}));
                }
            }
            results.push((pf.to_string(), st.to_string(), r, passes));
        }
    }
    for (_, _, r, _) in &results {
        if let Ok(g) = r {
            tree::fol_formula_syms(g, &mut syms);
        }
    }
    let rk = Ranks::from_set(&syms);
    let fv_in: BTreeSet<String> = f.free_variables().iter().map(|v| v.to_string()).collect();
    let outs: Vec<Value> = results
        .iter()
        .map(|(pf, st, r, passes)| match r {
            Ok(g) => {
                let fv_out: BTreeSet<String> = g.free_variables().iter().map(|v| v.to_string()).collect();
                json!({"portfolio":pf,"strategy":st,"out":tree::formula(g, &rk),"out_text":g.to_string(),
                       "same": *g == f, "new_free": fv_out.difference(&fv_in).cloned().collect::<Vec<_>>(), "passes": passes})
            }
            Err(p) => json!({"portfolio":pf,"strategy":st,"panic":p,"passes":passes}),
        })
        .collect();
    out.push(json!({
        "id": id, "kind": "simp", "text": text, "nsyms": rk.0.len(), "syms": rk.0,
        "f": tree::formula(&f, &rk), "outs": outs,
    }));
}

// ------------------------------------------------------------------ C07: every rewrite rule on its own
fn mode_rewrites(case: &Value, out: &mut Vec<Value>) {
    let id = s(case, "id");
    let text = s(case, "f");
    let f: fol::Formula = match text.parse() {
        Ok(p) => p,
        Err(e) => {
            out.push(json!({"id":id,"kind":"reject","text":text,"error":format!("{e}")}));
            return;
        }
    };
    let n_ht = verif::portfolio("ht").unwrap().len();
    let all = verif::portfolio("classic").unwrap();
    let mut syms = BTreeSet::new();
    tree::fol_formula_syms(&f, &mut syms);
    let mut results: Vec<(usize, Result<fol::Formula, String>)> = Vec::new();
    for (i, rule) in all.iter().enumerate() {
        let r = guarded(|| {
            let mut one = *rule;
            f.clone().apply(&mut one)
        });
        if let Ok(g) = &r {
            tree::fol_formula_syms(g, &mut syms);
        }
        results.push((i, r));
    }
    let rk = Ranks::from_set(&syms);
    let outs: Vec<Value> = results
        .iter()
        .map(|(i, r)| {
            let pf = if *i < n_ht { format!("rewrite-ht-{i}") } else { format!("rewrite-classic-{i}") };
            match r {
                Ok(g) => json!({"portfolio":pf,"strategy":"recursive","out":tree::formula(g, &rk),"out_text":g.to_string(),"same": *g == f}),
                Err(p) => json!({"portfolio":pf,"strategy":"recursive","panic":p}),
            }
        })
        .collect();
    out.push(json!({"id": id, "kind": "simp", "text": text, "nsyms": rk.0.len(), "syms": rk.0, "f": tree::formula(&f, &rk), "outs": outs}));
}

// ------------------------------------------------------------------ problems (C02 C03 C09 C11 C12 C13 C19)
fn parse_direction(x: &str) -> fol::Direction {
    match x {
        "forward" => fol::Direction::Forward,
        "backward" => fol::Direction::Backward,
        _ => fol::Direction::Universal,
    }
}

fn flags_of(v: &Value) -> verif::Flags {
    verif::Flags {
        sequential: b(v, "sequential"),
        direction: parse_direction(v.get("direction").and_then(|x| x.as_str()).unwrap_or("universal")),
        mu: b(v, "mu"),
        bypass_tightness: b(v, "bypass"),
        simplify: b(v, "simplify"),
        break_equivalences: b(v, "eqbreak"),
    }
}

fn problem_json(p: &verif::ProblemData, rk: &Ranks, with_text: bool) -> Value {
    let mut v = json!({
        "name": p.name,
        "formulas": p.formulas.iter().map(|(n, c, f)| json!({"name":n,"conj":c,"f":tree::formula(f, rk)})).collect::<Vec<_>>(),
    });
    if with_text {
        v["text"] = Value::String(p.text.clone());
    }
    v
}

fn mode_problems(case: &Value, out: &mut Vec<Value>) {
    let id = s(case, "id");
    let kind = s(case, "task");
    let with_text = b(case, "with_text");
    let flag_sets: Vec<Value> = case["flagsets"].as_array().cloned().unwrap_or_else(|| vec![json!({"simplify":true,"eqbreak":true,"sequential":true})]);
    if kind == "strong" {
        let lt = s(case, "left");
        let rt = s(case, "right");
        let (left, right) = match (lt.parse::<asp::Program>(), rt.parse::<asp::Program>()) {
            (Ok(l), Ok(r)) => (l, r),
            _ => {
                out.push(json!({"id":id,"kind":"reject","text":format!("{lt} | {rt}")}));
                return;
            }
        };
        let mut base_syms = BTreeSet::new();
        tree::asp_program_syms(&left, &mut base_syms);
        tree::asp_program_syms(&right, &mut base_syms);
        let mut families = Vec::new();
        let mut syms = base_syms.clone();
        let mut datas = Vec::new();
        for fl in &flag_sets {
            let flags = flags_of(fl);
            let r = guarded(|| verif::strong_problems(left.clone(), right.clone(), flags));
            if let Ok(ps) = &r {
                for p in ps {
                    for (_, _, f) in &p.formulas {
                        tree::fol_formula_syms(f, &mut syms);
                    }
                }
            }
            datas.push((fl.clone(), r));
        }
        let rk = Ranks::from_set(&syms);
        for (fl, r) in datas {
            match r {
                Ok(ps) => families.push(json!({"flags":fl,"problems":ps.iter().map(|p| problem_json(p, &rk, with_text)).collect::<Vec<_>>()})),
                Err(p) => families.push(json!({"flags":fl,"panic":p})),
            }
        }
        let mut preds: IndexSet<asp::Predicate> = left.predicates();
        preds.extend(right.predicates());
        out.push(json!({
            "id": id, "kind": "strong", "text": format!("{lt} | {rt}"), "nsyms": rk.0.len(), "syms": rk.0,
            "left": tree::asp_program(&left, &rk), "right": tree::asp_program(&right, &rk),
            "preds": preds.iter().map(|p| json!({"p":p.symbol,"n":p.arity})).collect::<Vec<_>>(),
            "families": families,
        }));
        return;
    }
    // external
    let ugt = s(case, "ug");
    let rt = s(case, "right");
    let pot = so(case, "po").unwrap_or_default();
    let ug = ugt.parse::<fol::UserGuide>();
    let right = rt.parse::<asp::Program>();
    let po = pot.parse::<fol::Specification>();
    let (left_prog, left_spec, lt) = if let Some(sp) = so(case, "spec") {
        (None, Some(sp.parse::<fol::Specification>()), sp)
    } else {
        let lt = s(case, "left");
        (Some(lt.parse::<asp::Program>()), None, lt)
    };
    let text = format!("{lt} | {rt} | {ugt} | {pot}");
    let (ug, right, po) = match (ug, right, po) {
        (Ok(a), Ok(b), Ok(c)) => (a, b, c),
        _ => {
            out.push(json!({"id":id,"kind":"reject","text":text}));
            return;
        }
    };
    let left: Either<asp::Program, fol::Specification> = match (left_prog, left_spec) {
        (Some(Ok(p)), _) => Either::Left(p),
        (_, Some(Ok(sp))) => Either::Right(sp),
        _ => {
            out.push(json!({"id":id,"kind":"reject","text":text}));
            return;
        }
    };
    let mut syms = BTreeSet::new();
    match &left {
        Either::Left(p) => tree::asp_program_syms(p, &mut syms),
        Either::Right(sp) => sp.formulas.iter().for_each(|a| tree::fol_formula_syms(&a.formula, &mut syms)),
    }
    tree::asp_program_syms(&right, &mut syms);
    for a in ug.formulas() {
        tree::fol_formula_syms(&a.formula, &mut syms);
    }
    for a in &po.formulas {
        tree::fol_formula_syms(&a.formula, &mut syms);
    }
    let mut datas = Vec::new();
    for fl in &flag_sets {
        let flags = flags_of(fl);
        let r = guarded(|| verif::external_problems(left.clone(), right.clone(), ug.clone(), po.clone(), flags));
        if let Ok(Ok((ps, _))) = &r {
            for p in ps {
                for (_, _, f) in &p.formulas {
                    tree::fol_formula_syms(f, &mut syms);
                }
            }
        }
        datas.push((fl.clone(), r));
    }
    let rk = Ranks::from_set(&syms);
    let mut families = Vec::new();
    for (fl, r) in datas {
        match r {
            Ok(Ok((ps, warnings))) => families.push(json!({"flags":fl,"warnings":warnings,
                "problems":ps.iter().map(|p| problem_json(p, &rk, with_text)).collect::<Vec<_>>()})),
            Ok(Err(e)) => families.push(json!({"flags":fl,"error":e})),
            Err(p) => families.push(json!({"flags":fl,"panic":p})),
        }
    }
    let lpreds: Vec<Value> = match &left {
        Either::Left(p) => p.predicates().iter().map(|q| json!({"p":q.symbol,"n":q.arity})).collect(),
        Either::Right(sp) => sp.predicates().iter().map(tree::predicate).collect(),
    };
    out.push(json!({
        "id": id, "kind": "external", "text": text, "nsyms": rk.0.len(), "syms": rk.0,
        "left_is_program": left.is_left(),
        "left": match &left { Either::Left(p) => tree::asp_program(p, &rk), Either::Right(sp) => tree::specification(sp, &rk) },
        "right": tree::asp_program(&right, &rk),
        "ug": tree::user_guide(&ug, &rk),
        "po": tree::specification(&po, &rk),
        "lpreds": lpreds,
        "rpreds": right.predicates().iter().map(|q| json!({"p":q.symbol,"n":q.arity})).collect::<Vec<_>>(),
        "lheads": match &left { Either::Left(p) => p.head_predicates().iter().map(|q| json!({"p":q.symbol,"n":q.arity})).collect::<Vec<_>>(), Either::Right(_) => vec![] },
        "rheads": right.head_predicates().iter().map(|q| json!({"p":q.symbol,"n":q.arity})).collect::<Vec<_>>(),
        "inputs": ug.input_predicates().iter().map(tree::predicate).collect::<Vec<_>>(),
        "outputs": ug.output_predicates().iter().map(tree::predicate).collect::<Vec<_>>(),
        "placeholders": ug.placeholders().iter().map(|p| json!({"c":p.name,"s":tree::sort(&p.sort)})).collect::<Vec<_>>(),
        "families": families,
    }));
}

// ------------------------------------------------------------------ C06: TPTP rendering of single formulas
fn mode_tptp(case: &Value, out: &mut Vec<Value>) {
    let id = s(case, "id");
    let text = s(case, "f");
    let f: fol::Formula = match text.parse() {
        Ok(p) => p,
        Err(e) => {
            out.push(json!({"id":id,"kind":"reject","text":text,"error":format!("{e}")}));
            return;
        }
    };
    // placeholders: {"n": "i" | "g" | "s"} turn the symbolic constants of that name into sorted function constants
    let mut mapping: indexmap::IndexMap<String, fol::FunctionConstant> = indexmap::IndexMap::new();
    if let Some(m) = case.get("placeholders").and_then(|x| x.as_object()) {
        for (k, v) in m {
            let sort = match v.as_str().unwrap_or("g") {
                "i" => fol::Sort::Integer,
                "s" => fol::Sort::Symbol,
                _ => fol::Sort::General,
            };
            mapping.insert(k.clone(), fol::FunctionConstant { name: k.clone(), sort });
        }
    }
    let f = f.replace_placeholders(&mapping).universal_closure();
    let mut syms = BTreeSet::new();
    tree::fol_formula_syms(&f, &mut syms);
    let rk = Ranks::from_set(&syms);
    match guarded(|| anthem::formatting::fol::sigma_0::tptp::Format(&f).to_string()) {
        Err(p) => out.push(json!({"id":id,"kind":"panic","text":text,"panic":p})),
        Ok(t) => out.push(json!({
            "id": id, "kind": "tptp", "text": f.to_string(), "nsyms": rk.0.len(), "syms": rk.0,
            "f": tree::formula(&f, &rk), "tptp": t,
            "preds": f.predicates().iter().map(tree::predicate).collect::<Vec<_>>(),
            "fcs": f.function_constants().iter().map(|c| json!({"c":c.name,"s":tree::sort(&c.sort)})).collect::<Vec<_>>(),
        })),
    }
}

// ------------------------------------------------------------------ C14 / C15: print-parse round trip
fn roundtrip<N>(text: &str, tj: impl Fn(&N) -> Value) -> Value
where
    N: anthem::syntax_tree::Node,
    <N as std::str::FromStr>::Err: std::fmt::Display,
{
    let r = guarded(|| text.parse::<N>());
    let t1 = match r {
        Err(p) => return json!({"stage":"parse1","panic":p}),
        Ok(Err(e)) => return json!({"stage":"parse1","error":format!("{e}").lines().next().unwrap_or("").to_string()}),
        Ok(Ok(t)) => t,
    };
    let text2 = match guarded(|| t1.to_string()) {
        Err(p) => return json!({"stage":"print1","panic":p}),
        Ok(x) => x,
    };
    let t2 = match guarded(|| text2.parse::<N>()) {
        Err(p) => return json!({"stage":"parse2","panic":p,"text2":text2,"tree1":tj(&t1)}),
        Ok(Err(e)) => {
            return json!({"stage":"parse2","error":format!("{e}").lines().next().unwrap_or("").to_string(),"text2":text2,"tree1":tj(&t1)});
        }
        Ok(Ok(t)) => t,
    };
    let text3 = t2.to_string();
    json!({"stage":"done","text2":text2,"text3":text3,"tree1":tj(&t1),"tree2":tj(&t2),"rust_eq":t1==t2})
}

fn all_ranks() -> Ranks {
    Ranks(vec![])
}

struct LooseRanks;
impl LooseRanks {
    // round-trip trees are compared structurally; symbol ranks are irrelevant there, so rank 0 is used
    fn asp_program(p: &asp::Program) -> Value {
        let mut syms = BTreeSet::new();
        tree::asp_program_syms(p, &mut syms);
        tree::asp_program(p, &Ranks::from_set(&syms))
    }
    fn theory(t: &fol::Theory) -> Value {
        let mut syms = BTreeSet::new();
        t.formulas.iter().for_each(|f| tree::fol_formula_syms(f, &mut syms));
        tree::theory(t, &Ranks::from_set(&syms))
    }
    fn spec(t: &fol::Specification) -> Value {
        let mut syms = BTreeSet::new();
        t.formulas.iter().for_each(|f| tree::fol_formula_syms(&f.formula, &mut syms));
        tree::specification(t, &Ranks::from_set(&syms))
    }
    fn ug(t: &fol::UserGuide) -> Value {
        let mut syms = BTreeSet::new();
        t.formulas().iter().for_each(|f| tree::fol_formula_syms(&f.formula, &mut syms));
        tree::user_guide(t, &Ranks::from_set(&syms))
    }
}

fn mode_roundtrip(case: &Value, out: &mut Vec<Value>) {
    let _ = all_ranks();
    let id = s(case, "id");
    let text = s(case, "text");
    let what = s(case, "as");
    let mut r = match what.as_str() {
        "program" => roundtrip::<asp::Program>(&text, LooseRanks::asp_program),
        "theory" => roundtrip::<fol::Theory>(&text, LooseRanks::theory),
        "specification" => roundtrip::<fol::Specification>(&text, LooseRanks::spec),
        "user-guide" => roundtrip::<fol::UserGuide>(&text, LooseRanks::ug),
        _ => panic!("harness: unknown syntax {what}"),
    };
    r["id"] = Value::String(id);
    r["kind"] = Value::String("roundtrip".into());
    r["as"] = Value::String(what);
    r["text"] = Value::String(text);
    if let Some(o) = case.get("origin") {
        r["origin"] = o.clone();
    }
    out.push(r);
}

// ------------------------------------------------------------------ C11: analyses
fn mode_analyze(case: &Value, out: &mut Vec<Value>) {
    use anthem::analyzing::regularity::Regularity as _;
    let id = s(case, "id");
    let text = s(case, "prog");
    let program: asp::Program = match text.parse() {
        Ok(p) => p,
        Err(e) => {
            out.push(json!({"id":id,"kind":"reject","text":text,"error":format!("{e}")}));
            return;
        }
    };
    let mut syms = BTreeSet::new();
    tree::asp_program_syms(&program, &mut syms);
    let rk = Ranks::from_set(&syms);
    let r = guarded(|| (program.is_tight(), program.is_regular()));
    match r {
        Err(p) => out.push(json!({"id":id,"kind":"panic","text":text,"panic":p})),
        Ok((tight, regular)) => out.push(json!({
            "id": id, "kind": "analyze", "text": text, "rules": tree::asp_program(&program, &rk),
            "tight": tight, "regular": regular,
        })),
    }
}

// ------------------------------------------------------------------ C15 / C18: everything translate and simplify print for a program
fn mode_outputs(case: &Value, out: &mut Vec<Value>) {
    let id = s(case, "id");
    let text = s(case, "prog");
    let program: asp::Program = match text.parse() {
        Ok(p) => p,
        Err(e) => {
            out.push(json!({"id":id,"kind":"reject","text":text,"error":format!("{e}")}));
            return;
        }
    };
    let mut texts: Vec<Value> = Vec::new();
    let r = guarded(|| {
        let mut v: Vec<(String, fol::Theory)> = Vec::new();
        let tau = program.clone().tau_star();
        v.push(("tau-star".into(), tau.clone()));
        v.push(("mu".into(), program.clone().mu()));
        if let Some(n) = program.clone().natural() {
            v.push(("natural".into(), n));
        }
        v.push(("gamma".into(), tau.clone().gamma()));
        if let Some(c) = tau.clone().completion(IndexSet::new()) {
            v.push(("completion".into(), c.clone()));
            for pf in ["intuitionistic", "ht", "classic"] {
                let mut simp = verif::portfolio(pf).unwrap().into_iter().compose();
                let t: fol::Theory = c.clone().into_iter().map(|f| f.apply_fixpoint(&mut simp)).collect();
                v.push((format!("simplify-{pf}-completion"), t));
            }
        }
        for pf in ["intuitionistic", "ht", "classic"] {
            let mut simp = verif::portfolio(pf).unwrap().into_iter().compose();
            let t: fol::Theory = tau.clone().into_iter().map(|f| f.apply_fixpoint(&mut simp)).collect();
            v.push((format!("simplify-{pf}-tau-star"), t));
        }
        v
    });
    match r {
        Err(p) => out.push(json!({"id":id,"kind":"panic","text":text,"panic":p})),
        Ok(v) => {
            for (what, theory) in v {
                // feed the printed theory back: it must be accepted and be the theory that was printed
                let t = theory.to_string();
                let back = guarded(|| t.parse::<fol::Theory>());
                let reparse = match back {
                    Err(p) => json!({"stage":"parse2","problem":p}),
                    Ok(Err(e)) => json!({"stage":"parse2","problem":format!("{e}").lines().next().unwrap_or("").to_string()}),
                    Ok(Ok(t2)) => json!({"stage":"done","tree2":LooseRanks::theory(&t2),"text3":t2.to_string()}),
                };
                texts.push(json!({"what":what,"text":t,"tree1":LooseRanks::theory(&theory),"reparse":reparse}));
            }
            out.push(json!({"id":id,"kind":"outputs","text":text,"program_text":program.to_string(),"texts":texts}));
        }
    }
}

fn main() {
    let args: Vec<String> = std::env::args().collect();
    if args.len() != 4 {
        eprintln!("usage: avh <mode> <cases.ndjson> <trace.ndjson>");
        std::process::exit(2);
    }
    // panics of the code under test are data; keep stderr quiet
    std::panic::set_hook(Box::new(|_| {}));
    let input = BufReader::new(std::fs::File::open(&args[2]).expect("harness: cannot open cases"));
    let mut output = BufWriter::new(std::fs::File::create(&args[3]).expect("harness: cannot create trace"));
    for line in input.lines() {
        let line = line.unwrap();
        if line.trim().is_empty() {
            continue;
        }
        let case: Value = serde_json::from_str(&line).expect("harness: bad case json");
        let mut out = Vec::new();
        match args[1].as_str() {
            "translate" => mode_translate(&case, &mut out),
            "completion" => mode_completion(&case, &mut out),
            "gamma" => mode_gamma(&case, &mut out),
            "subst" => mode_subst(&case, &mut out),
            "simplify" => mode_simplify(&case, &mut out),
            "problems" => mode_problems(&case, &mut out),
            "tptp" => mode_tptp(&case, &mut out),
            "roundtrip" => mode_roundtrip(&case, &mut out),
            "analyze" => mode_analyze(&case, &mut out),
            "outputs" => mode_outputs(&case, &mut out),
            "rewrites" => mode_rewrites(&case, &mut out),
            m => {
                eprintln!("harness: unknown mode {m}");
                std::process::exit(2);
            }
        }
        for v in out {
            writeln!(output, "{v}").unwrap();
        }
    }
}
