//! Mechanical serializers: one anthem syntax-tree constructor |-> one JSON record.
//! The JSON shape is exactly the TLA+ datatype the specification pattern-matches on
//! (DESIGN.md, Appendix A). No interpretation happens here.
use anthem::syntax_tree::{asp::mini_gringo as asp, fol::sigma_0 as fol};
use serde_json::{Value, json};
use std::collections::BTreeSet;

/// Symbol ranks: byte-lexicographic order of all symbolic constants of a record, 1-based.
#[derive(Default, Clone)]
pub struct Ranks(pub Vec<String>);

impl Ranks {
    pub fn from_set(s: &BTreeSet<String>) -> Self {
        // BTreeSet<String> iterates in byte-lexicographic order
        Ranks(s.iter().cloned().collect())
    }
    pub fn rank(&self, s: &str) -> i64 {
        match self.0.iter().position(|x| x == s) {
            Some(i) => (i + 1) as i64,
            None => panic!("harness: symbol {s} not ranked"),
        }
    }
}

fn clamp(n: isize) -> i64 {
    // TLC integers are 32-bit; numerals beyond +-1e9 are flagged so the spec can refuse the case
    n as i64
}

// ------------------------------------------------------------------ symbol collection
pub fn asp_term_syms(t: &asp::Term, out: &mut BTreeSet<String>) {
    match t {
        asp::Term::PrecomputedTerm(asp::PrecomputedTerm::Symbol(s)) => {
            out.insert(s.clone());
        }
        asp::Term::PrecomputedTerm(_) | asp::Term::Variable(_) => {}
        asp::Term::UnaryOperation { arg, .. } => asp_term_syms(arg, out),
        asp::Term::BinaryOperation { lhs, rhs, .. } => {
            asp_term_syms(lhs, out);
            asp_term_syms(rhs, out);
        }
    }
}

pub fn asp_program_syms(p: &asp::Program, out: &mut BTreeSet<String>) {
    for r in &p.rules {
        for t in r.terms() {
            asp_term_syms(&t, out);
        }
    }
}

pub fn fol_formula_syms(f: &fol::Formula, out: &mut BTreeSet<String>) {
    for s in f.symbols() {
        out.insert(s);
    }
}

// ------------------------------------------------------------------ mini-gringo
pub fn asp_term(t: &asp::Term, rk: &Ranks) -> Value {
    match t {
        asp::Term::PrecomputedTerm(asp::PrecomputedTerm::Infimum) => json!({"k":"inf"}),
        asp::Term::PrecomputedTerm(asp::PrecomputedTerm::Supremum) => json!({"k":"sup"}),
        asp::Term::PrecomputedTerm(asp::PrecomputedTerm::Numeral(n)) => {
            json!({"k":"num","n":clamp(*n)})
        }
        asp::Term::PrecomputedTerm(asp::PrecomputedTerm::Symbol(s)) => {
            json!({"k":"sym","c":s,"r":rk.rank(s)})
        }
        asp::Term::Variable(v) => json!({"k":"var","v":v.0}),
        asp::Term::UnaryOperation { op, arg } => match op {
            asp::UnaryOperator::Negative => json!({"k":"neg","a":asp_term(arg, rk)}),
        },
        asp::Term::BinaryOperation { op, lhs, rhs } => {
            let o = match op {
                asp::BinaryOperator::Add => "add",
                asp::BinaryOperator::Subtract => "sub",
                asp::BinaryOperator::Multiply => "mul",
                asp::BinaryOperator::Divide => "div",
                asp::BinaryOperator::Modulo => "mod",
                asp::BinaryOperator::Interval => "ivl",
            };
            json!({"k":o,"l":asp_term(lhs, rk),"r":asp_term(rhs, rk)})
        }
    }
}

pub fn asp_atom(a: &asp::Atom, rk: &Ranks) -> Value {
    json!({"p":a.predicate_symbol,"args":a.terms.iter().map(|t| asp_term(t, rk)).collect::<Vec<_>>()})
}

pub fn asp_relation(r: &asp::Relation) -> &'static str {
    match r {
        asp::Relation::Equal => "eq",
        asp::Relation::NotEqual => "ne",
        asp::Relation::Less => "lt",
        asp::Relation::LessEqual => "le",
        asp::Relation::Greater => "gt",
        asp::Relation::GreaterEqual => "ge",
    }
}

pub fn asp_rule(r: &asp::Rule, rk: &Ranks) -> Value {
    let head = match &r.head {
        asp::Head::Basic(a) => json!({"k":"basic","a":asp_atom(a, rk)}),
        asp::Head::Choice(a) => json!({"k":"choice","a":asp_atom(a, rk)}),
        asp::Head::Falsity => json!({"k":"falsity"}),
    };
    let body: Vec<Value> = r
        .body
        .formulas
        .iter()
        .map(|f| match f {
            asp::AtomicFormula::Literal(l) => {
                let sign = match l.sign {
                    asp::Sign::NoSign => 0,
                    asp::Sign::Negation => 1,
                    asp::Sign::DoubleNegation => 2,
                };
                json!({"k":"lit","sign":sign,"a":asp_atom(&l.atom, rk)})
            }
            asp::AtomicFormula::Comparison(c) => {
                json!({"k":"cmp","r":asp_relation(&c.relation),"l":asp_term(&c.lhs, rk),"rt":asp_term(&c.rhs, rk)})
            }
        })
        .collect();
    // variables in order of first occurrence, computed here by a plain traversal (not by anthem)
    let mut vars: Vec<String> = Vec::new();
    fn tv(t: &asp::Term, out: &mut Vec<String>) {
        match t {
            asp::Term::Variable(v) => {
                if !out.contains(&v.0) {
                    out.push(v.0.clone())
                }
            }
            asp::Term::PrecomputedTerm(_) => {}
            asp::Term::UnaryOperation { arg, .. } => tv(arg, out),
            asp::Term::BinaryOperation { lhs, rhs, .. } => {
                tv(lhs, out);
                tv(rhs, out)
            }
        }
    }
    match &r.head {
        asp::Head::Basic(a) | asp::Head::Choice(a) => a.terms.iter().for_each(|t| tv(t, &mut vars)),
        asp::Head::Falsity => {}
    }
    for f in &r.body.formulas {
        match f {
            asp::AtomicFormula::Literal(l) => l.atom.terms.iter().for_each(|t| tv(t, &mut vars)),
            asp::AtomicFormula::Comparison(c) => {
                tv(&c.lhs, &mut vars);
                tv(&c.rhs, &mut vars)
            }
        }
    }
    json!({"head":head,"body":body,"vars":vars})
}

pub fn asp_program(p: &asp::Program, rk: &Ranks) -> Value {
    Value::Array(p.rules.iter().map(|r| asp_rule(r, rk)).collect())
}

// ------------------------------------------------------------------ sigma_0
pub fn sort(s: &fol::Sort) -> &'static str {
    match s {
        fol::Sort::General => "g",
        fol::Sort::Integer => "i",
        fol::Sort::Symbol => "s",
    }
}

pub fn int_term(t: &fol::IntegerTerm) -> Value {
    match t {
        fol::IntegerTerm::Numeral(n) => json!({"k":"num","n":clamp(*n)}),
        fol::IntegerTerm::FunctionConstant(c) => json!({"k":"fc","c":c,"s":"i"}),
        fol::IntegerTerm::Variable(v) => json!({"k":"var","v":v,"s":"i"}),
        fol::IntegerTerm::UnaryOperation { op, arg } => match op {
            fol::UnaryOperator::Negative => json!({"k":"neg","a":int_term(arg)}),
        },
        fol::IntegerTerm::BinaryOperation { op, lhs, rhs } => {
            let o = match op {
                fol::BinaryOperator::Add => "add",
                fol::BinaryOperator::Subtract => "sub",
                fol::BinaryOperator::Multiply => "mul",
            };
            json!({"k":o,"l":int_term(lhs),"r":int_term(rhs)})
        }
    }
}

pub fn gen_term(t: &fol::GeneralTerm, rk: &Ranks) -> Value {
    match t {
        fol::GeneralTerm::Infimum => json!({"k":"inf"}),
        fol::GeneralTerm::Supremum => json!({"k":"sup"}),
        fol::GeneralTerm::FunctionConstant(c) => json!({"k":"fc","c":c,"s":"g"}),
        fol::GeneralTerm::Variable(v) => json!({"k":"var","v":v,"s":"g"}),
        fol::GeneralTerm::IntegerTerm(t) => int_term(t),
        fol::GeneralTerm::SymbolicTerm(fol::SymbolicTerm::Symbol(s)) => {
            json!({"k":"sym","c":s,"r":rk.rank(s)})
        }
        fol::GeneralTerm::SymbolicTerm(fol::SymbolicTerm::FunctionConstant(c)) => {
            json!({"k":"fc","c":c,"s":"s"})
        }
        fol::GeneralTerm::SymbolicTerm(fol::SymbolicTerm::Variable(v)) => {
            json!({"k":"var","v":v,"s":"s"})
        }
    }
}

pub fn fol_relation(r: &fol::Relation) -> &'static str {
    match r {
        fol::Relation::Equal => "eq",
        fol::Relation::NotEqual => "ne",
        fol::Relation::Greater => "gt",
        fol::Relation::Less => "lt",
        fol::Relation::GreaterEqual => "ge",
        fol::Relation::LessEqual => "le",
    }
}

pub fn variable(v: &fol::Variable) -> Value {
    json!({"n":v.name,"s":sort(&v.sort)})
}

pub fn formula(f: &fol::Formula, rk: &Ranks) -> Value {
    match f {
        fol::Formula::AtomicFormula(fol::AtomicFormula::Truth) => json!({"k":"true"}),
        fol::Formula::AtomicFormula(fol::AtomicFormula::Falsity) => json!({"k":"false"}),
        fol::Formula::AtomicFormula(fol::AtomicFormula::Atom(a)) => {
            json!({"k":"atom","p":a.predicate_symbol,"args":a.terms.iter().map(|t| gen_term(t, rk)).collect::<Vec<_>>()})
        }
        fol::Formula::AtomicFormula(fol::AtomicFormula::Comparison(c)) => {
            json!({"k":"cmp","t":gen_term(&c.term, rk),
                   "g":c.guards.iter().map(|g| json!({"r":fol_relation(&g.relation),"t":gen_term(&g.term, rk)})).collect::<Vec<_>>()})
        }
        fol::Formula::UnaryFormula { connective, formula: inner } => match connective {
            fol::UnaryConnective::Negation => json!({"k":"not","f":formula(inner, rk)}),
        },
        fol::Formula::BinaryFormula { connective, lhs, rhs } => {
            let c = match connective {
                fol::BinaryConnective::Conjunction => "and",
                fol::BinaryConnective::Disjunction => "or",
                fol::BinaryConnective::Implication => "imp",
                fol::BinaryConnective::ReverseImplication => "rimp",
                fol::BinaryConnective::Equivalence => "iff",
            };
            json!({"k":c,"l":formula(lhs, rk),"r":formula(rhs, rk)})
        }
        fol::Formula::QuantifiedFormula { quantification, formula: inner } => {
            let q = match quantification.quantifier {
                fol::Quantifier::Forall => "forall",
                fol::Quantifier::Exists => "exists",
            };
            json!({"k":q,"vars":quantification.variables.iter().map(variable).collect::<Vec<_>>(),"f":formula(inner, rk)})
        }
    }
}

pub fn theory(t: &fol::Theory, rk: &Ranks) -> Value {
    Value::Array(t.formulas.iter().map(|f| formula(f, rk)).collect())
}

pub fn role(r: &fol::Role) -> &'static str {
    match r {
        fol::Role::Assumption => "assumption",
        fol::Role::Spec => "spec",
        fol::Role::Lemma => "lemma",
        fol::Role::Definition => "definition",
        fol::Role::InductiveLemma => "inductive-lemma",
    }
}

pub fn direction(d: &fol::Direction) -> &'static str {
    match d {
        fol::Direction::Universal => "universal",
        fol::Direction::Forward => "forward",
        fol::Direction::Backward => "backward",
    }
}

pub fn annotated(a: &fol::AnnotatedFormula, rk: &Ranks) -> Value {
    json!({"role":role(&a.role),"dir":direction(&a.direction),"name":a.name,"f":formula(&a.formula, rk)})
}

pub fn specification(s: &fol::Specification, rk: &Ranks) -> Value {
    Value::Array(s.formulas.iter().map(|a| annotated(a, rk)).collect())
}

pub fn predicate(p: &fol::Predicate) -> Value {
    json!({"p":p.symbol,"n":p.arity})
}

pub fn user_guide(u: &fol::UserGuide, rk: &Ranks) -> Value {
    Value::Array(
        u.entries
            .iter()
            .map(|e| match e {
                fol::UserGuideEntry::InputPredicate(p) => json!({"k":"input","p":predicate(p)}),
                fol::UserGuideEntry::OutputPredicate(p) => json!({"k":"output","p":predicate(p)}),
                fol::UserGuideEntry::PlaceholderDeclaration(d) => {
                    json!({"k":"placeholder","c":d.name,"s":sort(&d.sort)})
                }
                fol::UserGuideEntry::AnnotatedFormula(a) => json!({"k":"formula","a":annotated(a, rk)}),
            })
            .collect(),
    )
}
