// The anthem command-line binary, built from /repo's current working tree.
// Behaves like /repo/src/main.rs (`fn main() -> anyhow::Result<()>`): on error print
// `Error: {e:?}` to stderr and exit with status 1.
fn main() {
    if let Err(e) = anthem::main() {
        eprintln!("Error: {e:?}");
        std::process::exit(1);
    }
}
